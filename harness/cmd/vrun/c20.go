package main

import (
	"bytes"
	"encoding/json"
	"fmt"
	"math/rand"
	"net/http"
	"net/url"
	"os"
	"os/exec"
	"path/filepath"
	"strconv"
	"strings"
	"sync"
	"sync/atomic"
	"time"

	"github.com/vicanso/pike/config"
	"github.com/vicanso/pike/server"
	"verifh/hx"
)

// C20: concurrent requests, purges and reloads never corrupt shared state; race freedom.
// The in-process stress runs in a child (race build) so that a crash of pike is a verdict.

type c20Result struct {
	Requests  int64            `json:"requests"`
	Labels    map[string]int64 `json:"labels"`
	Status    map[string]int64 `json:"status"`
	Reloads   int64            `json:"reloads"`
	Purges    int64            `json:"purges"`
	NotMod    int64            `json:"not_modified_answers"`
	Encodings map[string]int64 `json:"content_encodings"`
	Viol      []c09Viol        `json:"violations"`
	Sigs      []string         `json:"distinct"`
}

func c20Size(uri string) int { return 200 + int(fnvHash(uri)%6000) }

func c20Body(uri string) []byte {
	return hx.PRNGBytes(int64(fnvHash(uri)), c20Size(uri), "text")
}

func c20ETag(uri string) string { return fmt.Sprintf(`"t%x"`, fnvHash(uri)) }

func c20Child(args []string) {
	seed, _ := strconv.ParseInt(args[0], 10, 64)
	seconds, _ := strconv.Atoi(args[1])
	out := args[2]
	mix := "mixed"
	if len(args) > 3 {
		mix = args[3]
	}
	hx.QuietPikeLog("")
	hx.UninstallPoints() // no callbacks: the hooks add no synchronisation
	rnd := rand.New(rand.NewSource(seed))
	res := &c20Result{Labels: map[string]int64{}, Status: map[string]int64{}, Encodings: map[string]int64{}}
	var mu sync.Mutex
	viol := func(kind, text string, witness interface{}) {
		mu.Lock()
		n := 0
		for _, v := range res.Viol {
			if v.Kind == kind {
				n++
			}
		}
		if n < 6 {
			res.Viol = append(res.Viol, c09Viol{Kind: kind, Text: text, Case: witness})
		}
		mu.Unlock()
	}
	farm := hx.NewFarm(2, nil)
	farm.SetScript(func(f *hx.Fetch) *hx.Reply {
		u, _ := url.ParseRequestURI(f.URI)
		cc := "max-age=1"
		if strings.HasPrefix(u.Path, "/c20/u/") {
			cc = "no-cache"
		}
		if strings.HasPrefix(u.Path, "/c20/warm/") {
			cc = "max-age=300" // long-lived: resident (or evicted and reloaded) for the whole run, mostly hits
		}
		h := [][2]string{{"Cache-Control", cc}, {"Content-Type", "text/plain"}, {"X-Echo-Uri", f.URI}}
		if f.Method != "GET" && f.Method != "HEAD" {
			return &hx.Reply{Status: 200, Header: h, Body: []byte("ack")}
		}
		return &hx.Reply{ServeContent: true, ETag: c20ETag(f.URI), ModTime: c15ModTime, Header: h, Body: c20Body(f.URI), NoFetchHdr: true}
	})
	ports := hx.FreePorts(3)
	addrs := []string{srvAddr(ports[0]), srvAddr(ports[1])}
	admin := srvAddr(ports[2])
	// the small cache is backed by a store with slow calls now and then: evicted entries are reloaded
	// and saves overlap with lookups
	ms := hx.NewMemStore("mem://c20/a")
	ms.NoLog = true
	var storeN atomic.Int64
	ms.Script = func(op, key string, cur []byte) hx.StoreFault {
		if storeN.Add(1)%17 == 0 {
			return hx.StoreFault{Kind: "delay", Delay: 3 * time.Millisecond}
		}
		return hx.StoreFault{}
	}
	var reloadGen atomic.Int64
	mkCfg := func(variant int) *config.PikeConfig {
		cfg := &config.PikeConfig{
			Compresses: []config.CompressConfig{{Name: "cmp", Levels: map[string]uint{"gzip": uint(1 + variant*5), "br": uint(1 + variant*4)}}},
			// (the size of a surviving cache is a restart-only setting: changing it in a reload has no effect,
			// but it is a legal configuration change like any other)
			Caches: []config.CacheConfig{{Name: "c20a", Size: 64, HitForPass: "1s", Store: "mem://c20/a"}, {Name: "c20b", Size: 400 + variant*900, HitForPass: "1s"}},
			Upstreams: []config.UpstreamConfig{{Name: "u0", Servers: []config.UpstreamServerConfig{{Addr: farm.Origins[0].URL()}, {Addr: farm.Origins[1].URL()}}},
				{Name: "u1", Servers: []config.UpstreamServerConfig{{Addr: farm.Origins[variant%2].URL()}}}},
			Locations: []config.LocationConfig{{Name: "l0", Upstream: "u0", Prefixes: []string{"/c20/"}}, {Name: "l1", Upstream: "u1", Prefixes: []string{"/c20/u/"}}},
			Servers: []config.ServerConfig{{Addr: addrs[0], Locations: []string{"l0", "l1"}, Cache: "c20a", Compress: "cmp"},
				{Addr: addrs[1], Locations: []string{"l0"}, Cache: "c20b"}},
		}
		if variant == 1 {
			// levels for encodings pike does not produce are legal in a configuration (ignored)
			cfg.Compresses[0].Levels["zst"] = 3
			cfg.Compresses[0].Levels["lz4"] = 1
		}
		if n := reloadGen.Add(1); n%4 != 0 {
			cfg.Compresses[0].Levels[fmt.Sprintf("x-enc%d", n)] = 1 // a name never seen before
		}
		if variant == 1 {
			cfg.Servers[0].CompressMinLength = "500"
			cfg.Servers[1].Compress = "cmp"
			cfg.Locations[1].RespHeaders = []string{"X-Variant:1"}
			cfg.Servers[1].Locations = []string{"l0", "l1"}
		}
		return cfg
	}
	if err := hx.Apply(mkCfg(0)); err != nil {
		viol("setup", err.Error(), nil)
	}
	for _, a := range addrs {
		hx.WaitListening(a, 5*time.Second)
	}
	go server.StartAdminServer(server.AdminServerConfig{Addr: admin})
	hx.WaitListening(admin, 5*time.Second)
	var stop atomic.Bool
	var wg sync.WaitGroup
	// reloader
	wg.Add(1)
	go func() {
		defer wg.Done()
		for i := 1; !stop.Load(); i++ {
			// every reload replaces pike's upstream transports, whose idle connections stay open for their
			// 90 s idle timeout (about 270 descriptors per second at this pace): long runs reload four times
			// more slowly so that the process stays far below its descriptor limit
			pace := 1
			if seconds > 20 {
				pace = 4
			}
			time.Sleep(time.Duration(pace*(150+i%7*40)) * time.Millisecond)
			if err := hx.Apply(mkCfg(i % 2)); err != nil {
				viol("reload_failed", err.Error(), nil)
			}
			atomic.AddInt64(&res.Reloads, 1)
		}
	}()
	hot := make([]string, 12)
	for i := range hot {
		hot[i] = fmt.Sprintf("/c20/hot/%d?x=%d", i, i*i)
	}
	// purger through the admin API
	wg.Add(1)
	go func() {
		defer wg.Done()
		cl := hx.NewClient(nil)
		lr := rand.New(rand.NewSource(seed + 99))
		for !stop.Load() {
			time.Sleep(time.Duration(5+lr.Intn(30)) * time.Millisecond)
			q := url.Values{}
			q.Set("key", "GET c20.example "+hot[lr.Intn(len(hot))])
			if lr.Intn(2) == 0 {
				q.Set("cache", []string{"c20a", "c20b", "nope"}[lr.Intn(3)])
			}
			r := cl.Do(hx.Req{Method: "DELETE", Addr: admin, URI: "/cache?" + q.Encode(), Timeout: 5 * time.Second})
			if r.Err != nil || r.Status != 204 {
				viol("purge_failed", fmt.Sprintf("status %d err %v", r.Status, r.Err), nil)
			}
			atomic.AddInt64(&res.Purges, 1)
		}
	}()
	clients := 64
	seeds := make([]int64, clients)
	for i := range seeds {
		seeds[i] = rnd.Int63()
	}
	accepts := []string{"", "gzip", "br", "gzip, br", "identity", "deflate"}
	for c := 0; c < clients; c++ {
		wg.Add(1)
		go func(c int) {
			defer wg.Done()
			cl := hx.NewClient(nil)
			lr := rand.New(rand.NewSource(seeds[c]))
			lab, sts, enc := map[string]int64{}, map[string]int64{}, map[string]int64{}
			var n, nm int64
			for i := 0; !stop.Load(); i++ {
				var uri string
				pick := lr.Intn(10)
				if mix == "warm" && lr.Intn(10) != 0 {
					pick = 3 // nine in ten requests on the warm key space: high hit ratio under constant eviction
				}
				switch pick {
				case 0, 1:
					uri = fmt.Sprintf("/c20/c%02d/%04d", c, i%10000) // same length as the warm keys
				case 2:
					uri = fmt.Sprintf("/c20/u/%d", lr.Intn(6))
				case 3, 4, 5:
					// a key space larger than the small cache and than a shard's initial map: entries are
					// created, evicted, reloaded and hit again all the time, by all clients
					uri = fmt.Sprintf("/c20/warm/%03d", lr.Intn(600))
				default:
					uri = hot[lr.Intn(len(hot))]
				}
				method := "GET"
				if lr.Intn(12) == 0 {
					method = "HEAD"
				}
				if lr.Intn(25) == 0 {
					method = "POST"
				}
				hdr := http.Header{}
				if a := accepts[lr.Intn(len(accepts))]; a != "" {
					hdr.Set("Accept-Encoding", a)
				}
				cond := ""
				switch lr.Intn(8) {
				case 0:
					hdr.Set("If-None-Match", c20ETag(uri))
					cond = "match"
				case 1:
					hdr.Set("If-None-Match", `"zzz"`)
				case 2:
					hdr.Set("If-Modified-Since", c15ModTime.Format(http.TimeFormat))
					cond = "match"
				}
				var body []byte
				if method == "POST" {
					body = []byte("p")
				}
				r := cl.Do(hx.Req{Method: method, Addr: addrs[lr.Intn(2)], Host: "c20.example", URI: uri, Header: hdr, Body: body, Timeout: 10 * time.Second})
				n++
				lab[r.Label]++
				sts[strconv.Itoa(r.Status)]++
				enc[r.CE]++
				wit := map[string]interface{}{"uri": uri, "method": method, "request_header": hdr, "result": r.Brief()}
				switch {
				case r.Err != nil:
					viol("request_failed", "request failed under concurrent traffic/purges/reloads: "+r.Err.Error(), wit)
				case method == "POST":
					if r.Status != 200 || string(r.Raw) != "ack" {
						viol("malformed_response", fmt.Sprintf("POST answered %d %.40q", r.Status, r.Raw), wit)
					}
				case r.Status == 304:
					nm++
					if cond != "match" {
						viol("not_modified_without_matching_validator", "304 for a request whose validators do not match", wit)
					}
				case r.Status == 503 && strings.Contains(string(r.Raw), "not found"):
					// a reload swaps locations/upstreams/caches one after the other: a request may
					// land between two steps of one reload. Counted, judged by C16 (unchanged parts).
					sts["503_not_found_during_reload"]++
				case r.Status != 200:
					viol("malformed_response", fmt.Sprintf("status %d %.80q", r.Status, r.Raw), wit)
				case r.DecErr != nil:
					viol("malformed_response", "body does not decode per Content-Encoding: "+r.DecErr.Error(), wit)
				case r.Header.Get("X-Echo-Uri") != uri:
					viol("response_of_another_key", fmt.Sprintf("response belongs to %q", r.Header.Get("X-Echo-Uri")), wit)
				case method == "GET" && !bytes.Equal(r.Decoded, c20Body(uri)):
					viol("body_differs_from_upstream", fmt.Sprintf("decoded body (%d bytes, sha %s) is not what the upstream produces for this key (%d bytes)", len(r.Decoded), hx.Sha(r.Decoded), c20Size(uri)), wit)
				case method == "HEAD" && len(r.Raw) != 0:
					viol("malformed_response", "HEAD with a body", wit)
				case r.CLHeader != "" && method == "GET" && r.CLHeader != strconv.Itoa(len(r.Raw)):
					viol("malformed_response", "Content-Length mismatch", wit)
				}
			}
			mu.Lock()
			res.Requests += n
			res.NotMod += nm
			for k, v := range lab {
				res.Labels[k] += v
			}
			for k, v := range sts {
				res.Status[k] += v
			}
			for k, v := range enc {
				res.Encodings[k] += v
			}
			mu.Unlock()
		}(c)
	}
	time.Sleep(time.Duration(seconds) * time.Second)
	stop.Store(true)
	wg.Wait()
	for l := range res.Labels {
		for e := range res.Encodings {
			res.Sigs = append(res.Sigs, "label="+l+"|ce="+e)
		}
	}
	buf, _ := json.Marshal(res)
	os.WriteFile(out, buf, 0644)
}

// c20Directed: the unlocked-read schedule arranged so that the race detector can see it: waiter W
// held after its wake-up, next request R held before the entry lock, both released by closing one
// channel (no ordering edge between them)
func c20Directed(r *hx.Run, n int) {
	w := newSimpleWorld(r, hx.SimpleCfg{CacheName: "c20d"}, 1, true)
	defer w.Farm.Close()
	w.Pts = hx.InstallPoints(r.Seed)
	ps := &plans{}
	w.Farm.SetScript(ps.script)
	for i := 0; i < n; i++ {
		uri := fmt.Sprintf("/c20d/%d", i)
		key := "GET c20.example " + uri
		g1, g2 := make(chan struct{}), make(chan struct{})
		ps.set(uri, &plan{Seq: []ans{{Kind: "cacheable", T: 1}}, Gate: func(f *hx.Fetch) <-chan struct{} {
			if f.Nth == 1 {
				return g1
			}
			return g2
		}})
		rq := hx.Req{Addr: w.Addr, Host: "c20.example", URI: uri, Timeout: 20 * time.Second}
		async := func() chan *hx.Result {
			ch := make(chan *hx.Result, 1)
			go func() { ch <- w.Cl.Do(rq) }()
			return ch
		}
		chF := async()
		hx.WaitUntil(10*time.Second, func() bool { return w.Farm.InflightKey(key) == 1 })
		base := w.Pts.Count("get.registered")
		holdW := w.Pts.HoldNext("get.woken")
		chW := async()
		hx.WaitUntil(10*time.Second, func() bool { return w.Pts.Count("get.registered") > base })
		close(g1)
		<-chF
		okW := holdW.WaitArrived(10 * time.Second)
		w.Clock.Advance(2)
		holdR := w.Pts.HoldNext("disp.got")
		chR := async()
		okR := holdR.WaitArrived(10 * time.Second)
		// release both without ordering them against each other
		go holdW.Release()
		go holdR.Release()
		time.Sleep(2 * time.Millisecond)
		close(g2)
		<-chW
		<-chR
		w.Pts.Disarm(holdW)
		w.Pts.Disarm(holdR)
		if okW && okR {
			r.Add("directed_unordered_release_schedules", 1)
			r.Distinct("directed_unordered_release")
		}
		r.Eval(1)
		ps.del(uri)
		w.Clock.Advance(3)
	}
}

// c20Proc: the real binary under traffic and a storm of configuration saves; its race log is read
func c20Proc(r *hx.Run, seconds int) {
	bin, err := hx.BuildPike(r.Scratch)
	if err != nil {
		r.Inconclusive("cannot build pike")
		return
	}
	farm := hx.NewFarm(1, nil)
	defer farm.Close()
	farm.SetScript(func(f *hx.Fetch) *hx.Reply {
		return &hx.Reply{Status: 200, Header: [][2]string{{"Cache-Control", "max-age=1"}, {"Content-Type", "text/plain"}, {"X-Echo-Uri", f.URI}}, Body: c20Body(f.URI), NoFetchHdr: true}
	})
	ports := hx.FreePorts(2)
	addr, admin := srvAddr(ports[0]), srvAddr(ports[1])
	mk := func(v int) *config.PikeConfig {
		c := &config.PikeConfig{
			Compresses: []config.CompressConfig{{Name: "cmp", Levels: map[string]uint{"gzip": uint(1 + v), "br": uint(1 + v)}}},
			Caches:     []config.CacheConfig{{Name: "c", Size: 500, HitForPass: "1s"}},
			Upstreams:  []config.UpstreamConfig{{Name: "u", Servers: []config.UpstreamServerConfig{{Addr: farm.Origins[0].URL()}}}},
			Locations:  []config.LocationConfig{{Name: "l", Upstream: "u"}},
			Servers:    []config.ServerConfig{{Addr: addr, Locations: []string{"l"}, Cache: "c", Compress: "cmp"}},
		}
		if v%2 == 1 {
			c.Servers[0].CompressMinLength = "300"
			c.Locations[0].RespHeaders = []string{"X-V:1"}
		}
		return c
	}
	p, err := hx.NewPike(bin, filepath.Join(r.Scratch, "c20-proc"), mk(0), ports[1])
	if err != nil {
		r.Inconclusive("prepare pike: " + err.Error())
		return
	}
	defer p.Kill()
	if _, err := p.Start([]string{addr, admin}, 30*time.Second); err != nil {
		r.Inconclusive("pike does not start: " + err.Error())
		return
	}
	var stop atomic.Bool
	var wg sync.WaitGroup
	var nreq, nput atomic.Int64
	for c := 0; c < 16; c++ {
		wg.Add(1)
		go func(c int) {
			defer wg.Done()
			cl := hx.NewClient(nil)
			lr := rand.New(rand.NewSource(r.Seed*100 + int64(c)))
			for i := 0; !stop.Load(); i++ {
				uri := fmt.Sprintf("/c20p/%d", lr.Intn(20))
				res := cl.Do(hx.Req{Addr: addr, Host: "c20.example", URI: uri, Header: http.Header{"Accept-Encoding": {[]string{"gzip", "br", "identity"}[lr.Intn(3)]}}, Timeout: 10 * time.Second})
				nreq.Add(1)
				if res.Err != nil || res.Status != 200 || res.DecErr != nil || !bytes.Equal(res.Decoded, c20Body(uri)) {
					r.Violate("body_differs_from_upstream", map[string]string{"engine": "proc"}, fmt.Sprintf("real binary under configuration saves: status %d err %v", res.Status, res.Err), res.Brief(), map[string]interface{}{"uri": uri})
				}
			}
		}(c)
	}
	cl := hx.NewClient(nil)
	deadline := time.Now().Add(time.Duration(seconds) * time.Second)
	for v := 1; time.Now().Before(deadline); v++ {
		body, _ := json.Marshal(mk(v))
		res := cl.Do(hx.Req{Method: "PUT", Addr: admin, URI: "/config", Header: http.Header{"Content-Type": {"application/json"}}, Body: body, Timeout: 10 * time.Second})
		if res.Err != nil || res.Status != 200 {
			r.Violate("config_save_failed", map[string]string{"engine": "proc"}, fmt.Sprintf("PUT /config: %d %v", res.Status, res.Err), res.Brief(), nil)
			break
		}
		nput.Add(1)
		time.Sleep(160 * time.Millisecond)
	}
	stop.Store(true)
	wg.Wait()
	time.Sleep(300 * time.Millisecond)
	r.Add("proc_requests", nreq.Load())
	r.Add("proc_config_saves", nput.Load())
	r.Add("proc_reloads_observed", int64(p.CountEvent("update.done")))
	r.Eval(nreq.Load())
	if !p.Alive() {
		r.Violate("process_crashed", map[string]string{"engine": "proc"}, "the pike process died under traffic and configuration saves", nil, nil)
	}
	// race reports of the pike process
	os.WriteFile(filepath.Join(r.Scratch, "race.procpike"), []byte(p.RaceReports()), 0644)
}

func c20(r *hx.Run) {
	r.Rule = "race-instrumented. (1) child process: in-process pike with two servers/caches (one of 64 entries backed by a store with occasional slow calls), T = 1 s and hit-for-pass 1 s on the real clock, 64 clients for N seconds on 12 hot keys, 600 warm keys, per-client cold keys and uncacheable keys with GET/HEAD/POST, six Accept-Encoding values and matching/non-matching validators, a purger through the admin API, and a reloader alternating two configurations through the same Reset/Start calls main.update uses; hook callbacks removed. Every response must be well-formed and equal to what the upstream produces for its key (bodies are a function of the URI, so any version is right; 304 only for matching validators). (2) directed schedule with unordered release of a woken waiter and the next request. (1b) the same stress from a build without race instrumentation (about ten times the throughput; functional oracle only), once with the same mix and once with nine in ten requests on the warm keys (cache of 400 under 600 keys of equal length: high hit ratio under constant eviction). (3) the real binary under 16 clients and a storm of admin PUT /config saves. All race logs (driver child, pike process) are parsed; reports with a pike frame are de-duplicated by outermost entry-point pair and each is a violation; a crash is a violation. Non-trivial/distinct = (label, encoding) combinations observed + directed schedule."
	r.Assume = []string{"a request landing between two steps of one reload may get pike's 503 'not found' (counted, judged by C16 for unchanged parts)", "the race detector sees only the interleavings produced"}
	exe, _ := os.Executable()
	stress := func(bin, engine, mix string, seconds, rounds int) {
		for round := 0; round < rounds; round++ {
			out := filepath.Join(r.Scratch, fmt.Sprintf("c20-%s-%d.json", engine, round))
			cmd := exec.Command(bin, "child", "c20", fmt.Sprint(r.Seed*10+int64(round)), fmt.Sprint(seconds), out, mix)
			var stderr bytes.Buffer
			cmd.Stderr = &stderr
			cmd.Stdout = &stderr
			timer := time.AfterFunc(time.Duration(seconds+120)*time.Second, func() { cmd.Process.Kill() })
			err := cmd.Run()
			timer.Stop()
			buf, rerr := os.ReadFile(out)
			if harnessFailure(err, rerr) {
				// the child could not be started or its result file vanished: not an observation about pike
				r.Inconclusive(fmt.Sprintf("child process could not be run: %v / %v", err, rerr))
				continue
			}
			if err != nil || rerr != nil {
				tail := stderr.String()
				if i := strings.Index(tail, "panic:"); i >= 0 {
					tail = tail[i:]
				}
				if len(tail) > 5000 {
					tail = tail[:5000]
				}
				r.Violate("process_crashed", map[string]string{"engine": engine}, fmt.Sprintf("the stress process died: %v", err), tail, nil)
				continue
			}
			var res c20Result
			json.Unmarshal(buf, &res)
			r.Eval(res.Requests)
			r.Add("requests_"+engine, res.Requests)
			r.Add("reloads", res.Reloads)
			r.Add("purges", res.Purges)
			r.Add("not_modified_answers", res.NotMod)
			for k, v := range res.Labels {
				r.Add("label_"+k, v)
			}
			for k, v := range res.Status {
				r.Add("status_"+k, v)
			}
			for _, s := range res.Sigs {
				r.Distinct(s)
			}
			for _, v := range res.Viol {
				r.Violate(v.Kind, map[string]string{"engine": engine}, v.Text, v.Case, nil)
			}
			r.Sample(map[string]interface{}{"labels": res.Labels, "status": res.Status, "encodings": res.Encodings, "reloads": res.Reloads, "purges": res.Purges})
		}
	}
	stress(exe, "inproc", "mixed", r.Pick(12, 90), r.Pick(1, 4))
	// the same stress without race instrumentation: about ten times the requests per second (and the
	// allocator, sync.Pool and scheduler behave as in production), judged by the functional oracle only
	if fast := os.Getenv("VERIF_FAST_BIN"); fast != "" {
		stress(fast, "inproc_uninstrumented", "mixed", r.Pick(5, 60), r.Pick(1, 4))
		stress(fast, "inproc_uninstrumented_warm", "warm", r.Pick(6, 60), r.Pick(1, 4))
	} else {
		r.Add("uninstrumented_stress_skipped", 1)
	}
	c20Directed(r, r.Pick(30, 300))
	c20Proc(r, r.Pick(5, 40))
	checkRaceLog(r)
}

func init() {
	register("C20", "exploration", c20)
	children["c20"] = c20Child
}
