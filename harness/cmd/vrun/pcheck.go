package main

import (
	"fmt"
	"time"

	"github.com/anishathalye/porcupine"
	"verifh/hx"
)

// porcupine model of one cache entry (see DESIGN.md section 5): operations are
// advance(d) of the virtual clock, request -> (label, fetch id), purge.

type pState struct {
	PrevVer int64 // version of the entry that expired last (0 after a purge or a refetch)
	Now     int64
	St      int
	Ver     int64
	Created int64
	T       int64
	Until   int64
}

type pIn struct {
	Op  string // advance | req | purge
	D   int64
	HFP int64
	// TolerateStale: a hit of the version that has just expired is accepted (staleness is judged by C04)
	TolerateStale bool
}

type pOut struct {
	Label  string
	Fetch  int64
	Status int
	Life   int64 // lifetime of the answer this request fetched (fetching only)
	Failed bool
}

func pNorm(s pState) pState {
	switch s.St {
	case stHit:
		if s.Now-s.Created > s.T {
			s.St = stNone
			s.PrevVer = s.Ver
		}
	case stHFP:
		if s.Now > s.Until {
			s.St = stNone
		}
	}
	if s.St == stNone {
		s.Ver, s.Created, s.T, s.Until = 0, 0, 0, 0
	}
	return s
}

func entryPorcupineModel(start int64) porcupine.Model {
	return porcupine.Model{
		Init: func() interface{} { return pState{Now: start} },
		Step: func(state, input, output interface{}) (bool, interface{}) {
			s := state.(pState)
			in := input.(pIn)
			switch in.Op {
			case "advance":
				s.Now += in.D
				return true, pNorm(s)
			case "purge":
				s.St = stNone
				s.PrevVer = 0
				return true, pNorm(s)
			}
			out := output.(pOut)
			s = pNorm(s)
			hfp := in.HFP
			if hfp <= 0 {
				hfp = 300
			}
			switch out.Label {
			case "hit":
				if in.TolerateStale && s.St == stNone && s.PrevVer != 0 && s.PrevVer == out.Fetch {
					return true, s
				}
				return s.St == stHit && s.Ver == out.Fetch, s
			case "hitForPass":
				return s.St == stHFP, s
			case "fetching":
				if s.St != stNone {
					return false, s
				}
				if out.Life > 0 {
					return true, pState{Now: s.Now, St: stHit, Ver: out.Fetch, Created: s.Now, T: out.Life}
				}
				return true, pState{Now: s.Now, St: stHFP, Until: s.Now + hfp}
			default:
				// failed request without label: a failed fetcher (none -> hit-for-pass) or a failed pass
				if s.St == stNone {
					return true, pState{Now: s.Now, St: stHFP, Until: s.Now + hfp}
				}
				return s.St == stHFP, s
			}
		},
		DescribeOperation: func(input, output interface{}) string {
			in := input.(pIn)
			if in.Op != "req" {
				return fmt.Sprintf("%s(%d)", in.Op, in.D)
			}
			out := output.(pOut)
			return fmt.Sprintf("req->%s/%d life=%d", out.Label, out.Fetch, out.Life)
		},
	}
}

// pResult result of a porcupine check
type pResult struct {
	Result string
	Ops    int
}

func porcupineCheck(start int64, ops []porcupine.Operation) string {
	res := porcupine.CheckOperationsTimeout(entryPorcupineModel(start), ops, 20*time.Second)
	switch res {
	case porcupine.Ok:
		return "ok"
	case porcupine.Illegal:
		return "illegal"
	}
	return "unknown"
}

func reqOp(client int, res *hx.Result, hfp int64, life int64) porcupine.Operation {
	return porcupine.Operation{ClientId: client, Input: pIn{Op: "req", HFP: hfp, TolerateStale: true}, Call: res.CallSeq,
		Output: pOut{Label: res.Label, Fetch: res.FetchID, Status: res.Status, Life: life, Failed: res.Err != nil || res.Status >= 500}, Return: res.RetSeq}
}

func describeOps(ops []porcupine.Operation) []string {
	m := entryPorcupineModel(0)
	out := []string{}
	for _, o := range ops {
		out = append(out, fmt.Sprintf("c%d [%d,%d] %s", o.ClientId, o.Call, o.Return, m.DescribeOperation(o.Input, o.Output)))
	}
	return out
}
