#!/bin/bash
# tools/try_mutant.sh <patch.diff> <ID> [<ID>...]  — developer tool: apply a seeded change to a scratch
# worktree of /repo's HEAD (outside /repo and /verif), run the quick checks named against it
# (VERIF_REPO), remove the worktree. Prints one line per check: CAUGHT / MISSED / other.
# (The documented way - git -C /repo apply; ./check; git -C /repo checkout -- . - gives the same result;
# the worktree only keeps /repo free for runs in the background.)
PATCH="$1"; shift
WT=$(mktemp -d /tmp/mutwt-XXXXXX); rmdir "$WT"
git -C /repo worktree add -f "$WT" HEAD -q || exit 3
trap 'git -C /repo worktree remove --force "$WT" 2>/dev/null; rm -rf "$WT"' EXIT
cd "$WT" || exit 3
if ! git apply --3way "$PATCH" 2>/tmp/apply.err; then
  git reset -q --hard HEAD
  if ! git apply "$PATCH" 2>>/tmp/apply.err; then echo "PATCH DOES NOT APPLY: $(head -3 /tmp/apply.err)"; exit 4; fi
fi
git reset -q
for ID in "$@"; do
  out=$(cd /verif && VERIF_OUT="$WT/.verif-out" VERIF_REPO="$WT" VERIF_SEED=${VERIF_SEED:-1} ./check "$ID" ${TIER:-quick} 2>&1); rc=$?
  v=$(echo "$out" | grep -c '^VIOLATION')
  case $rc in
    1) echo "$ID: CAUGHT ($v violation lines): $(echo "$out" | grep 'violation kind' | head -2 | cut -c1-260)";;
    0) echo "$ID: MISSED";;
    *) echo "$ID: rc=$rc $(echo "$out" | tail -3 | cut -c1-300)";;
  esac
done
