package main

import (
	"fmt"
	"math/rand"
	"path/filepath"
	"strings"
	"sync"
	"sync/atomic"
	"time"

	"github.com/vicanso/pike/config"
	"verifh/hx"
)

// C19: traffic goes only to healthy upstream servers, backups last.

type c19World struct {
	name string
	farm *hx.Farm
	addr string
	cl   *hx.Client
}

type c19Group struct {
	w       *c19World
	World   string   `json:"world"`
	ID      int      `json:"id"`
	Policy  string   `json:"policy"`
	Ping    string   `json:"health_check"` // "" = port check
	Backup  []bool   `json:"backup"`
	Servers []int    `json:"origin_indexes"`
	Up      []bool   `json:"up"`
	History []string `json:"history"`
	// Soft: a server of this group goes "down" by failing its HTTP health check (503) while it keeps
	// listening and would still answer requests
	Soft bool `json:"down_means_health_check_answers_503"`
	// FailOverThenBack: primaries down in the last phase before the recovery, whatever the random plan says
	FailOverThenBack bool `json:"fail_over_then_back"`
	// Stall: the servers of this group go "down" by never answering their health check (they keep listening and
	// would serve requests); all of them in odd phases
	Stall bool `json:"down_means_health_check_never_answered"`
	// ProxyTimeout of the group's location (0 = none)
	ProxyTimeout time.Duration `json:"proxy_timeout"`
	// H2C: the upstream is configured with enableH2C (its health check path must still be honoured)
	H2C bool `json:"enable_h2c"`
}

func c19(r *hx.Run) {
	r.Level = "fault_enumeration"
	r.Rule = "G upstream groups in one in-process pike (whose unchanged configuration is re-applied before odd phases) plus two groups behind the real binary (eight round-robin primaries; primary+backup with policy first; all down / all up alternately, so that more than eight transitions to sick happen), each with 1-4 servers (every primary/backup mix incl. backups only), policy from {roundRobin, first, random, leastconn, default}, health check by ping path (/ping or /) or by port; in a quarter of the groups a server goes down by answering its health check with 503 while it keeps listening; a quarter of the groups are reached over h2c (enableH2C), half of those of the 503 kind; one group of two primaries goes down by never answering its health check (the port accepts). Five more groups (one per policy, primary + backup) fail over to the backup in the last phase before the recovery and must hand the traffic back. Phases: initial (all up), then random up/down vectors (all down, primaries down, one down, ...), finally all up again; servers are really stopped and restarted on the same port. After each change the driver waits until a live server of the group has seen two complete health-check rounds that began after the change (pings/connections are visible at the origins; 11.5 s when nothing is alive), then sends 12 sequential requests per group: each must be served by a healthy primary, or by a healthy backup only if no primary is healthy; roundRobin counts over healthy primaries differ by <= 1; with nothing healthy every request gets a 5xx within 2 s (also after 200 clients sent their request and went away at once, and for three bursts of 24 concurrent GETs of one cold URI, which coalesce behind a fetch that never finds an upstream); after recovery traffic resumes. Finally, with everything healthy, single requests fail for reasons that are not the server's (the client gives up on a slow request after 150 ms; a request exceeds the location's 1.5 s proxy timeout; healthy primaries drop the connection of body-less GET/HEAD requests, which must not be handed to a backup) and, for groups with backups, one slow request is held in flight on every primary: the 12 requests that follow are judged by the same rule (the servers never failed a health check). Non-trivial = settled phase with at least one server down; distinct = (policy, ping kind, backup mix, up vector)."
	r.Assume = []string{"the health checker's 5 s ticker has no clock seam: settling is observed, the run is wall-clock bound", "behaviour inside the unsettled window is not judged"}
	rnd := rand.New(rand.NewSource(r.Seed))
	nGroups := r.Pick(14, 100)
	phases := r.Pick(3, 12)
	var groups []*c19Group
	total := 0
	policies := []string{"roundRobin", "first", "random", "leastconn", ""}
	mixes := [][]bool{{false}, {false, false}, {false, true}, {false, false, true}, {false, true, true}, {true, true}, {false, false, false}, {false, false, true, true}, {true}, {false, false, false, true}}
	for g := 0; g < nGroups; g++ {
		mix := mixes[g%len(mixes)]
		if g >= len(mixes) {
			mix = mixes[rnd.Intn(len(mixes))]
		}
		gr := &c19Group{ID: g, Policy: policies[g%len(policies)], Backup: mix}
		if g%2 == 1 {
			gr.Ping = "/ping"
		}
		if g%4 == 3 {
			gr.Ping, gr.Soft = "/", true
		}
		// every eighth group reaches its servers over h2c: one that goes down by closing its port (5, 13, ...)
		// and one whose health check answers 503 while the port stays open (7, 15, ...)
		gr.H2C = g%8 == 5 || g%8 == 7
		for range mix {
			gr.Servers = append(gr.Servers, total)
			gr.Up = append(gr.Up, true)
			total++
		}
		groups = append(groups, gr)
	}
	// one more group per policy with a primary and a backup whose plan is fixed: the primary is down in the
	// last phase before the recovery (traffic fails over to the backup) and must get the traffic back
	for pi, pol := range policies {
		gr := &c19Group{ID: nGroups + pi, Policy: pol, Backup: []bool{false, true}, Up: []bool{true, true}, FailOverThenBack: true}
		if pi%2 == 1 {
			gr.Ping = "/ping"
		}
		gr.Servers = []int{total, total + 1}
		total += 2
		groups = append(groups, gr)
	}
	// and one group of two primaries that go down together by stalling: their port accepts, the health request is never answered
	groups = append(groups, &c19Group{ID: nGroups + len(policies), Policy: "roundRobin", Ping: "/ping", Backup: []bool{false, false}, Up: []bool{true, true}, Stall: true, Servers: []int{total, total + 1}})
	total += 2
	port := hx.FreePorts(1)[0]
	w := newWorldCfg(r, total, false, func(origins []string) *config.PikeConfig {
		cfg := &config.PikeConfig{Caches: []config.CacheConfig{{Name: "c19", Size: 1000, HitForPass: "5m"}}}
		var names []string
		for _, g := range groups {
			u := config.UpstreamConfig{Name: fmt.Sprintf("g%d", g.ID), Policy: g.Policy, HealthCheck: g.Ping, EnableH2C: g.H2C}
			for i, oi := range g.Servers {
				u.Servers = append(u.Servers, config.UpstreamServerConfig{Addr: origins[oi], Backup: g.Backup[i]})
			}
			cfg.Upstreams = append(cfg.Upstreams, u)
			lc := config.LocationConfig{Name: fmt.Sprintf("l%d", g.ID), Upstream: u.Name, Prefixes: []string{fmt.Sprintf("/g%d/", g.ID)}}
			if g.ID%3 == 0 {
				lc.ProxyTimeout = "1500ms"
				g.ProxyTimeout = 1500 * time.Millisecond
			}
			cfg.Locations = append(cfg.Locations, lc)
			names = append(names, fmt.Sprintf("l%d", g.ID))
		}
		cfg.Servers = []config.ServerConfig{{Addr: srvAddr(port), Locations: names, Cache: "c19"}}
		return cfg
	})
	defer w.Farm.Close()
	okScript := func(f *hx.Fetch) *hx.Reply {
		return &hx.Reply{Status: 200, Header: [][2]string{{"Cache-Control", "no-store"}}, Body: []byte("ok")}
	}
	w.Farm.SetScript(okScript)
	// a little jitter where the proxy hands over to the upstream picker: requests of one key overlap there
	pts := hx.InstallPoints(r.Seed)
	pts.SetJitter([]string{"proxy.afterUpstream", "disp.got"}, 3000)
	defer hx.UninstallPoints()
	inproc := &c19World{name: "inproc", farm: w.Farm, addr: w.Addr, cl: w.Cl}
	for _, g := range groups {
		g.w, g.World = inproc, "inproc"
	}
	// the real binary (its status listener and alarm path are part of main.go): one round-robin group
	// of eight primaries and one group with a backup, no --alarm URL
	var procPike *hx.Pike
	if bin, err := hx.BuildPike(r.Scratch); err != nil {
		r.Inconclusive("cannot build pike: " + err.Error())
	} else {
		pf := hx.NewFarm(10, nil)
		defer pf.Close()
		pf.SetScript(okScript)
		pp := hx.FreePorts(1)
		pw := &c19World{name: "proc", farm: pf, addr: srvAddr(pp[0]), cl: hx.NewClient(nil)}
		g1 := &c19Group{w: pw, World: "proc", ID: 1000, Policy: "roundRobin", Backup: make([]bool, 8), Servers: []int{0, 1, 2, 3, 4, 5, 6, 7}, Up: []bool{true, true, true, true, true, true, true, true}}
		g2 := &c19Group{w: pw, World: "proc", ID: 1001, Policy: "first", Ping: "/ping", Backup: []bool{false, true}, Servers: []int{8, 9}, Up: []bool{true, true}}
		pcfg := &config.PikeConfig{Caches: []config.CacheConfig{{Name: "c19", Size: 1000, HitForPass: "5m"}}}
		var names []string
		for _, g := range []*c19Group{g1, g2} {
			u := config.UpstreamConfig{Name: fmt.Sprintf("g%d", g.ID), Policy: g.Policy, HealthCheck: g.Ping}
			for i, oi := range g.Servers {
				u.Servers = append(u.Servers, config.UpstreamServerConfig{Addr: pf.Origins[oi].URL(), Backup: g.Backup[i]})
			}
			pcfg.Upstreams = append(pcfg.Upstreams, u)
			pcfg.Locations = append(pcfg.Locations, config.LocationConfig{Name: fmt.Sprintf("l%d", g.ID), Upstream: u.Name, Prefixes: []string{fmt.Sprintf("/g%d/", g.ID)}})
			names = append(names, fmt.Sprintf("l%d", g.ID))
		}
		pcfg.Servers = []config.ServerConfig{{Addr: pw.addr, Locations: names, Cache: "c19"}}
		procPike, err = hx.NewPike(bin, filepath.Join(r.Scratch, "c19-proc"), pcfg, 0)
		if err == nil {
			_, err = procPike.Start([]string{pw.addr}, 30*time.Second)
		}
		if err != nil {
			r.Inconclusive("real pike does not start: " + err.Error())
		} else {
			defer procPike.Kill()
			groups = append(groups, g1, g2)
		}
	}
	reqN := 0
	// activity of a server's health checks: pings (path check) or new connections (port check)
	activity := func(g *c19Group, i int) int64 {
		o := g.w.farm.Origins[g.Servers[i]]
		if g.Ping != "" {
			return o.Pings.Load()
		}
		return o.Conns.Load()
	}
	// groups whose health checker was not seen settling after the last change: not judged in that phase
	unsettled := map[int]bool{}
	var unsettledMu sync.Mutex
	settle := func(changedAt time.Time) {
		unsettledMu.Lock()
		unsettled = map[int]bool{}
		unsettledMu.Unlock()
		var wg sync.WaitGroup
		for _, g := range groups {
			wg.Add(1)
			go func(g *c19Group) {
				defer wg.Done()
				live := -1
				for i, up := range g.Up {
					if up {
						live = i
					}
				}
				if live < 0 && g.Stall {
					// every server must have been asked after the change; the verdict on it falls 3 s later (the
					// library's timeout), the servers are asked one after another
					base := make([]int64, len(g.Up))
					for i := range g.Up {
						base[i] = activity(g, i)
					}
					deadline := changedAt.Add(25 * time.Second)
					for time.Now().Before(deadline) {
						time.Sleep(50 * time.Millisecond)
						asked := 0
						for i := range g.Up {
							if activity(g, i) != base[i] {
								asked++
							}
						}
						if asked == len(g.Up) {
							time.Sleep(4500 * time.Millisecond)
							return
						}
					}
					r.InconclusiveCase(fmt.Sprintf("group %d: the stalled servers were not all asked for their health within 25 s", g.ID))
					unsettledMu.Lock()
					unsettled[g.ID] = true
					unsettledMu.Unlock()
					return
				}
				if live < 0 {
					time.Sleep(time.Until(changedAt.Add(11500 * time.Millisecond)))
					return
				}
				// bursts of health-check activity on a live server: two bursts after the change
				last := activity(g, live)
				bursts := 0
				lastChange := time.Time{}
				deadline := changedAt.Add(16 * time.Second)
				for time.Now().Before(deadline) {
					time.Sleep(50 * time.Millisecond)
					cur := activity(g, live)
					if cur != last {
						if lastChange.IsZero() || time.Since(lastChange) > 2*time.Second {
							bursts++
						}
						lastChange = time.Now()
						last = cur
					}
					if bursts >= 2 && time.Since(lastChange) > 1200*time.Millisecond {
						return
					}
				}
				r.InconclusiveCase(fmt.Sprintf("group %d did not show two health-check rounds within 16 s", g.ID))
				unsettledMu.Lock()
				unsettled[g.ID] = true
				unsettledMu.Unlock()
			}(g)
		}
		wg.Wait()
	}
	var judgeGroup func(g *c19Group, phase string)
	judge := func(phase string) {
		for _, g := range groups {
			judgeGroup(g, phase)
		}
	}
	judgeGroup = func(g *c19Group, phase string) {
		unsettledMu.Lock()
		skip := unsettled[g.ID]
		unsettledMu.Unlock()
		if skip {
			return
		}
		{
			var healthyPrim, healthyBack []int
			for i, up := range g.Up {
				if up {
					if g.Backup[i] {
						healthyBack = append(healthyBack, i)
					} else {
						healthyPrim = append(healthyPrim, i)
					}
				}
			}
			allowed := healthyPrim
			if len(allowed) == 0 {
				allowed = healthyBack
			}
			if len(allowed) == 0 && g.World == "inproc" {
				// during the outage 200 clients send their request and go away at once
				raw := []byte(fmt.Sprintf("GET /g%d/gone HTTP/1.1\r\nHost: c19.example\r\n\r\n", g.ID))
				var awg sync.WaitGroup
				for k := 0; k < 200; k++ {
					awg.Add(1)
					go func() {
						defer awg.Done()
						hx.RawRequest(g.w.addr, raw, "GET", true, 2*time.Second)
					}()
				}
				awg.Wait()
				r.Add("clients_gone_at_once_during_an_outage", 200)
				// ... and bursts of concurrent GETs of one cold URI (they coalesce behind the first one, whose
				// "fetch" ends without any upstream; jitter at the proxy hook keeps it in flight long enough):
				// every one of them is refused promptly
				for b := 0; b < 3 && !r.TooMany(); b++ {
					reqN++
					const N = 24
					burstURI := fmt.Sprintf("/g%d/burst?n=%d", g.ID, reqN)
					bres := make([]*hx.Result, N)
					before := g.w.farm.LogLen()
					for k := 0; k < N; k++ {
						awg.Add(1)
						go func(k int) {
							defer awg.Done()
							bres[k] = hx.NewClient(nil).Do(hx.Req{Addr: g.w.addr, Host: "c19.example", URI: burstURI, Timeout: 8 * time.Second})
						}(k)
					}
					awg.Wait()
					contacts := 0
					for _, f := range g.w.farm.LogSince(before) {
						if strings.HasPrefix(f.URI, fmt.Sprintf("/g%d/burst", g.ID)) {
							contacts++
						}
					}
					r.Eval(1)
					r.Add("concurrent_same_key_requests_during_an_outage", N)
					for k, res := range bres {
						if res.Err != nil || res.Status < 500 || contacts != 0 {
							r.Violate("no_prompt_5xx_when_nothing_healthy", map[string]string{"policy": g.Policy, "pattern": "concurrent_requests_of_one_key"},
								fmt.Sprintf("request %d of %d concurrent GETs of one cold URI: status %d err %v (8 s client timeout), upstream contacts %d", k, N, res.Status, res.Err, contacts),
								res.Brief(), map[string]interface{}{"group": g, "phase": phase, "uri": burstURI})
							break
						}
					}
				}
			}
			counts := map[int]int{}
			cs := map[string]interface{}{"group": g, "phase": phase, "allowed_server_positions": allowed}
			bad := false
			const M = 12
			slowFirst := 0
			for k := 0; k < M && !bad; k++ {
				reqN++
				if g.Stall && len(allowed) == 0 && k > 0 && k%3 == 0 {
					// (spread over a few seconds: whatever pike might do once per second is met more than once)
					time.Sleep(1200 * time.Millisecond)
				}
				// quiet connection churn on port-checked servers: the client request itself opens none to the origin directly
				t0 := time.Now()
				before := g.w.farm.LogLen()
				res := g.w.cl.Do(hx.Req{Method: "POST", Addr: g.w.addr, Host: "c19.example", URI: fmt.Sprintf("/g%d/r?n=%d", g.ID, reqN), Body: []byte("x"), Timeout: 8 * time.Second})
				dt := time.Since(t0)
				var fs []*hx.Fetch
				for _, f := range g.w.farm.LogSince(before) {
					if strings.HasPrefix(f.URI, fmt.Sprintf("/g%d/", g.ID)) {
						fs = append(fs, f)
					}
				}
				r.Eval(1)
				r.Add("requests_in_settled_phases", 1)
				if len(allowed) == 0 {
					r.Add("requests_with_nothing_healthy", 1)
					if res.Err == nil && res.Status >= 500 && dt > 2*time.Second {
						// one slow answer may be the machine (it is asked again below); several in one series of twelve are pike's
						if slowFirst++; slowFirst >= 2 {
							r.Violate("no_prompt_5xx_when_nothing_healthy", map[string]string{"policy": g.Policy, "pattern": "slow_again_and_again"}, fmt.Sprintf("%d of the first %d requests of the series took more than 2 s to be refused (this one %v)", slowFirst, k+1, dt.Round(time.Millisecond)), res.Brief(), cs)
							bad = true
							continue
						}
					}
					for retry := 0; retry < 2 && res.Err == nil && res.Status >= 500 && dt > 2*time.Second; retry++ {
						// slow once may be the machine; slow every time is pike waiting for something
						r.Add("slow_5xx_retried", 1)
						t0 = time.Now()
						res = g.w.cl.Do(hx.Req{Method: "POST", Addr: g.w.addr, Host: "c19.example", URI: fmt.Sprintf("/g%d/r?n=%d&retry=%d", g.ID, reqN, retry), Body: []byte("x"), Timeout: 8 * time.Second})
						dt = time.Since(t0)
					}
					if res.Err != nil || res.Status < 500 || dt > 2*time.Second || len(fs) != 0 {
						r.Violate("no_prompt_5xx_when_nothing_healthy", map[string]string{"policy": g.Policy}, fmt.Sprintf("status %d err %v after %v, upstream contacts %d", res.Status, res.Err, dt.Round(time.Millisecond), len(fs)), res.Brief(), cs)
						bad = true
					}
					continue
				}
				if g.ProxyTimeout > 0 && res.Err == nil && res.Status == 504 && dt >= g.ProxyTimeout {
					// the location's proxy timeout fired on a plain request: the machine stalled for that long
					r.InconclusiveCase(fmt.Sprintf("group %d: a plain request took %v and hit the location's proxy timeout", g.ID, dt.Round(time.Millisecond)))
					continue
				}
				if res.Err == nil && res.Status >= 400 && len(fs) == 0 {
					// refused by pike itself with the transport's error text, which names the address it dialled
					text := string(res.Decoded)
					if len(text) > 300 {
						text = text[:300]
					}
					cs["error_text"] = text
					toDown, toAllowed := -1, false
					for i, oi := range g.Servers {
						if a := g.w.farm.Origins[oi].Addr; a != "" && strings.Contains(text, a) {
							if !g.Up[i] {
								toDown = i
							}
							for _, al := range allowed {
								if al == i {
									toAllowed = true
								}
							}
						}
					}
					if toDown >= 0 {
						r.Violate("forwarded_to_unhealthy_server", map[string]string{"policy": g.Policy}, fmt.Sprintf("status %d: the request was sent to the server at position %d, which is down (up=%v): %s", res.Status, toDown, g.Up, text), res.Brief(), cs)
						bad = true
						continue
					}
					// a transport failure on the way to a rightly chosen server is not a matter of selection: the request
					// is repeated, and only a repeated failure is judged
					again := g.w.cl.Do(hx.Req{Method: "POST", Addr: g.w.addr, Host: "c19.example", URI: fmt.Sprintf("/g%d/r?n=%d&again=1", g.ID, reqN), Body: []byte("x"), Timeout: 8 * time.Second})
					if again.Err == nil && again.Status == 200 {
						r.InconclusiveCase(fmt.Sprintf("group %d: one request failed on the way to a healthy server (to an allowed server: %v; status %d: %s) and succeeded when repeated", g.ID, toAllowed, res.Status, text))
						continue
					}
				}
				if res.Err != nil || res.Status != 200 || len(fs) != 1 {
					r.Violate("request_failed_although_a_server_is_healthy", map[string]string{"policy": g.Policy}, fmt.Sprintf("status %d err %v, upstream contacts %d", res.Status, res.Err, len(fs)), res.Brief(), cs)
					bad = true
					continue
				}
				pos := -1
				for i, oi := range g.Servers {
					if oi == fs[0].Server {
						pos = i
					}
				}
				counts[pos]++
				ok := false
				for _, a := range allowed {
					if a == pos {
						ok = true
					}
				}
				if !ok {
					kind := "served_by_unhealthy_or_foreign_server"
					if pos >= 0 && g.Up[pos] && g.Backup[pos] {
						kind = "backup_used_while_primary_healthy"
					}
					r.Violate(kind, map[string]string{"policy": g.Policy}, fmt.Sprintf("request served by server position %d; allowed %v (up=%v backup=%v)", pos, allowed, g.Up, g.Backup), res.Brief(), cs)
					bad = true
				}
			}
			if !bad && (g.Policy == "roundRobin" || g.Policy == "") && len(healthyPrim) > 1 {
				min, max := M, 0
				for _, a := range healthyPrim {
					if counts[a] < min {
						min = counts[a]
					}
					if counts[a] > max {
						max = counts[a]
					}
				}
				r.Add("round_robin_balance_checks", 1)
				if max-min > 1 {
					r.Violate("round_robin_uneven", nil, fmt.Sprintf("sequential requests per healthy primary: %v", counts), nil, cs)
				}
			}
			down := false
			for _, up := range g.Up {
				if !up {
					down = true
				}
			}
			if down && !bad {
				r.Distinct(fmt.Sprintf("%s|%s|%v|%v", g.Policy, g.Ping, g.Backup, g.Up))
			}
			g.History = append(g.History, fmt.Sprintf("%s up=%v served=%v", phase, g.Up, counts))
		}
	}
	// initial: everything is up and was checked synchronously at creation
	judge("initial")
	for ph := 1; ph <= phases && !r.TooMany(); ph++ {
		last := ph == phases
		if ph%2 == 1 && !last { // (not before the recovery: what the pickers remember from the outage must not be wiped)
			// the unchanged configuration is applied again (as any unrelated configuration change does):
			// health checking must go on afterwards
			if err := hx.Apply(w.Cfg); err != nil {
				r.Inconclusive("re-apply failed: " + err.Error())
			}
			r.Add("configuration_reapplied_before_phase", 1)
		}
		changedAt := time.Now()
		for _, g := range groups {
			for i := range g.Up {
				want := true
				if g.World == "proc" && !last {
					// the real binary: everything down in odd phases, everything up in even ones
					// (many transitions to "sick" over the process lifetime)
					want = ph%2 == 0
				} else if !last && g.Stall {
					want = ph%2 == 0
				} else if !last && g.FailOverThenBack && ph == phases-1 {
					want = g.Backup[i] // primaries down: the backup takes over
				} else if !last {
					switch (g.ID + ph) % 4 {
					case 0:
						want = false // everything down
					case 1:
						want = g.Backup[i] // primaries down
					case 2:
						want = i != 0 // first server down
					default:
						want = rnd.Intn(2) == 0
					}
				}
				o := g.w.farm.Origins[g.Servers[i]]
				if want && !g.Up[i] {
					if g.Stall {
						o.PingDelay.Store(0)
					} else if g.Soft {
						o.PingStatus.Store(0)
					} else if err := o.Up(); err != nil {
						r.InconclusiveCase("cannot restart origin: " + err.Error())
					}
					r.Add("servers_brought_up", 1)
				} else if !want && g.Up[i] {
					if g.Stall {
						o.PingDelay.Store(int64(8 * time.Second))
						r.Add("servers_stalling_their_health_check_while_listening", 1)
					} else if g.Soft {
						o.PingStatus.Store(503)
						r.Add("servers_failing_their_http_health_check_while_listening", 1)
					} else {
						o.Down()
					}
					r.Add("servers_taken_down", 1)
				}
				g.Up[i] = want
			}
		}
		settle(changedAt)
		r.Add("settled_phases", 1)
		name := fmt.Sprintf("phase%d", ph)
		if last {
			name = "recovery"
		}
		judge(name)
	}
	// ---- faults of single requests while every server is healthy: a client that gives up on a slow
	// request, a request that exceeds the location's proxy timeout, and (leastconn) requests arriving
	// while every primary has one in flight. The servers keep passing their health checks throughout,
	// so the very next requests must still be served by the healthy primaries.
	if !r.TooMany() {
		gate := make(chan struct{})
		var heldN atomic.Int64
		w.Farm.SetScript(func(f *hx.Fetch) *hx.Reply {
			if strings.Contains(f.URI, "/drop") {
				return &hx.Reply{Drop: true}
			}
			if strings.Contains(f.URI, "/slow") {
				heldN.Add(1)
				return &hx.Reply{Status: 200, Header: [][2]string{{"Cache-Control", "no-store"}}, Body: []byte("ok"), Gate: gate}
			}
			return okScript(f)
		})
		var slow sync.WaitGroup
		for _, g := range groups {
			if g.World != "inproc" || r.TooMany() {
				continue
			}
			nPrim := 0
			for i := range g.Up {
				if !g.Backup[i] {
					nPrim++
				}
			}
			// (a) the client gives up after 150 ms
			reqN++
			res := g.w.cl.Do(hx.Req{Method: "POST", Addr: g.w.addr, Host: "c19.example", URI: fmt.Sprintf("/g%d/slow?n=%d", g.ID, reqN), Body: []byte("x"), Timeout: 150 * time.Millisecond})
			if res.Err != nil {
				r.Add("slow_requests_abandoned_by_the_client", 1)
			}
			judgeGroup(g, "after_client_abort")
			// (b) the location's proxy timeout fires
			if g.ProxyTimeout > 0 {
				reqN++
				res := g.w.cl.Do(hx.Req{Method: "POST", Addr: g.w.addr, Host: "c19.example", URI: fmt.Sprintf("/g%d/slow?n=%d", g.ID, reqN), Body: []byte("x"), Timeout: 8 * time.Second})
				if res.Status >= 500 {
					r.Add("slow_requests_cut_by_proxy_timeout", 1)
				}
				judgeGroup(g, "after_proxy_timeout")
			}
			// (d) healthy primaries read a body-less request and drop the connection without an answer: that request
			// fails (or is tried again on a primary) - it is no reason to hand anything to a backup
			if nPrim > 0 && nPrim < len(g.Up) {
				for k := 0; k < 2*nPrim && !r.TooMany(); k++ {
					reqN++
					before := g.w.farm.LogLen()
					res := g.w.cl.Do(hx.Req{Method: []string{"GET", "HEAD"}[k%2], Addr: g.w.addr, Host: "c19.example", URI: fmt.Sprintf("/g%d/drop?n=%d", g.ID, reqN), Timeout: 8 * time.Second})
					r.Add("requests_whose_connection_a_healthy_primary_dropped", 1)
					for _, f := range g.w.farm.LogSince(before) {
						if !strings.HasPrefix(f.URI, fmt.Sprintf("/g%d/drop", g.ID)) {
							continue
						}
						for i, oi := range g.Servers {
							if oi == f.Server && g.Backup[i] {
								r.Violate("backup_used_while_primary_healthy", map[string]string{"policy": g.Policy, "fault": "primary_dropped_the_connection"}, fmt.Sprintf("a request whose connection a healthy primary dropped was sent to the backup at position %d although every primary passes its health checks", i), res.Brief(), map[string]interface{}{"group": g, "phase": "primary_drops_connection"})
							}
						}
					}
				}
				judgeGroup(g, "after_dropped_connections")
			}
			// (c) one request in flight on every primary, more arriving meanwhile
			if nPrim > 0 && nPrim < len(g.Up) && g.ProxyTimeout == 0 {
				base := heldN.Load()
				for k := 0; k < nPrim; k++ {
					reqN++
					slow.Add(1)
					go func(n int) {
						defer slow.Done()
						g.w.cl.Do(hx.Req{Method: "POST", Addr: g.w.addr, Host: "c19.example", URI: fmt.Sprintf("/g%d/slow?n=%d", g.ID, n), Body: []byte("x"), Timeout: 60 * time.Second})
					}(reqN)
					hx.WaitUntil(5*time.Second, func() bool { return heldN.Load() >= base+int64(k)+1 })
				}
				r.Add("groups_probed_with_every_primary_busy", 1)
				judgeGroup(g, "every_primary_busy")
			}
		}
		close(gate)
		slow.Wait()
		w.Farm.SetScript(okScript)
	}
	for i := 0; i < 3 && i < len(groups); i++ {
		r.Sample(groups[i])
	}
	r.Set("groups", len(groups))
}

func init() { register("C19", "fault_enumeration", c19) }
