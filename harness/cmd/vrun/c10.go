package main

import (
	"encoding/binary"
	"fmt"
	"math/rand"
	"os"
	"path/filepath"
	"strings"
	"sync"
	"time"

	"github.com/vicanso/pike/cache"
	"verifh/hx"
)

// C10: store failures degrade to memory-only caching, never to client errors.

type c10Version struct {
	fetch   int64
	created int64 // upper bound of createdAt
	t       int64
}

type c10Key struct {
	uri          string
	key          string
	versions     map[int64]c10Version
	tainted      bool // a well-formed-but-altered record was handed to pike: only errors/hangs are judged until refetched
	purgeBad     bool // a purge whose store delete failed: a later reload of the old record is not judged
	lastPurgeSeq int64
}

var c10FaultKinds = []string{"ok", "ok", "ok", "notfound", "error", "delay", "truncate", "random", "flip_head", "flip_body", "status_field", "empty"}

func c10(r *hx.Run) {
	r.MaxViol = 6 // violations here usually cost a watchdog period each
	r.Level = "fault_enumeration"
	r.Rule = "histories on 6 keys in a cache of 16 entries backed by a scripted store: steps drawn from {burst of 1-4 requests, clock advance, purge, eviction by filler keys}; every store call (get/set/delete) draws a fault from {ok, not-found, error, delay 1-30 ms, value truncated at a random offset, random bytes, bit flip in the first 64 bytes, bit flip elsewhere, status field overwritten (0,1,4,99), empty value}. The origin is always healthy. Judged per request: 200 with the key's own intact body, a hit only of a still-valid version, a memory-resident hit without any store read, the request that received an undecodable record is an ordinary fetching miss, nobody stranded (hooked entry state at quiescence). A garbled value that still decodes (the harness decodes it itself) only taints the key: errors and hangs are judged, altered content is the known class undetectable-corruption. Directed: the store goes down after start-up (every call fails) - responses are cached memory-only, a purge still empties the memory, and when the store comes back nothing that was purged may be written to it afterwards (watched for 1.3 s). Finally the configured store cannot be opened at all (badger directory below a regular file, redis nobody listens on): the cache serves memory-only. Non-trivial = history in which >=1 injected fault reached a store call of a judged key; distinct = fault kind x operation x step kind."
	r.Assume = []string{"virtual clock; -race build", "a purge whose store delete failed may resurrect the old record later (not judged)", "without an integrity field pike cannot detect corruption that leaves a record well-formed"}
	rnd := rand.New(rand.NewSource(r.Seed))
	storeURL := fmt.Sprintf("mem://c10/%d", r.Seed)
	ms := hx.NewMemStore(storeURL)
	w := newSimpleWorld(r, hx.SimpleCfg{CacheName: "c10", CacheSize: 16, HitForPass: "3s", Store: storeURL}, 1, true)
	defer w.Farm.Close()
	w.Pts = hx.InstallPoints(r.Seed)
	const T = 5
	w.Farm.SetScript(func(f *hx.Fetch) *hx.Reply {
		return &hx.Reply{Status: 200, Header: [][2]string{{"Cache-Control", "max-age=5"}, {"Content-Type", "text/plain"}}, Body: hx.IdentBody(f, 600, "text")}
	})
	var fmu sync.Mutex
	frnd := rand.New(rand.NewSource(r.Seed + 7))
	faultsOn := false
	storeDown := false // directed cases: every store call on /d10 keys fails
	type lastFault struct {
		kind      string
		decodable bool
		seq       int64
	}
	lastGet := map[string]lastFault{}
	faultCount := map[string]int64{}
	ms.Script = func(op, key string, cur []byte) hx.StoreFault {
		fmu.Lock()
		defer fmu.Unlock()
		if strings.HasPrefix(key, "GET c10.example /d10") && storeDown {
			// directed: the store is down - every call fails
			return hx.StoreFault{Kind: "error"}
		}
		if !faultsOn || len(key) < 20 || key[:20] != "GET c10.example /c10" {
			return hx.StoreFault{}
		}
		kind := c10FaultKinds[frnd.Intn(len(c10FaultKinds))]
		if op != "get" && (kind != "error" && kind != "delay") {
			kind = "ok"
		}
		faultCount[op+":"+kind]++
		switch kind {
		case "ok":
			if op == "get" {
				lastGet[key] = lastFault{"ok", true, hx.Seq()}
			}
			return hx.StoreFault{}
		case "notfound", "error":
			if op == "get" {
				lastGet[key] = lastFault{kind, false, hx.Seq()}
			}
			return hx.StoreFault{Kind: kind}
		case "delay":
			if op == "get" {
				lastGet[key] = lastFault{"ok", true, hx.Seq()}
			}
			return hx.StoreFault{Kind: "delay", Delay: time.Duration(1+frnd.Intn(30)) * time.Millisecond}
		}
		if cur == nil {
			lastGet[key] = lastFault{"notfound", false, hx.Seq()}
			return hx.StoreFault{Kind: "notfound"}
		}
		v := append([]byte{}, cur...)
		switch kind {
		case "truncate":
			v = v[:frnd.Intn(len(v))]
		case "random":
			v = make([]byte, frnd.Intn(200))
			frnd.Read(v)
		case "flip_head":
			n := 64
			if len(v) < n {
				n = len(v)
			}
			v[frnd.Intn(n)] ^= 1 << uint(frnd.Intn(8))
		case "flip_body":
			v[frnd.Intn(len(v))] ^= 1 << uint(frnd.Intn(8))
		case "status_field":
			binary.BigEndian.PutUint32(v[0:], []uint32{0, 1, 4, 99}[frnd.Intn(4)])
		case "empty":
			v = []byte{}
		}
		probe := cache.NewHTTPCache()
		dec := probe.FromBytes(v) == nil
		if dec && kind == "status_field" {
			// a record claiming a state that is never persisted (unknown/fetching/passed/garbage) is a bad record
			dec = false
		}
		lastGet[key] = lastFault{kind, dec, hx.Seq()}
		return hx.StoreFault{Kind: "garble:" + kind, Data: v}
	}
	keys := make([]*c10Key, 6)
	nh := r.Pick(120, 6000)
	for hi := 0; hi < nh && !r.TooMany(); hi++ {
		func() {
			defer func() {
				fmu.Lock()
				faultsOn = false
				fmu.Unlock()
			}()
			for i := range keys {
				uri := fmt.Sprintf("/c10/%d/%d/%d", r.Seed, hi, i)
				keys[i] = &c10Key{uri: uri, key: "GET c10.example " + uri, versions: map[int64]c10Version{}}
			}
			fmu.Lock()
			faultsOn = true
			fmu.Unlock()
			steps := 25 + rnd.Intn(20)
			reachedFault := false
			var trace []string
			for si := 0; si < steps && !r.TooMany(); si++ {
				k := keys[rnd.Intn(len(keys))]
				switch op := rnd.Intn(10); {
				case op < 6: // burst
					n := 1 + rnd.Intn(4)
					now := w.Clock.Now()
					st0, _ := entryState("c10", k.key)
					callsBefore := ms.NCalls()
					before := w.Farm.LogLen()
					resCh := make(chan []*hx.Result, 1)
					go func() {
						resCh <- burst(w, n, hx.Req{Addr: w.Addr, Host: "c10.example", URI: k.uri, Timeout: 25 * time.Second})
					}()
					var results []*hx.Result
					select {
					case results = <-resCh:
					case <-time.After(20 * time.Second):
						st, free := entryState("c10", k.key)
						fmu.Lock()
						lf := lastGet[k.key]
						fmu.Unlock()
						hangSeen(r)
						r.Violate("request_stranded_after_store_fault", map[string]string{"fault": lf.kind, "decodable": fmt.Sprint(lf.decodable)},
							fmt.Sprintf("requests still blocked at quiescence after the store returned a %s value; entry %+v (lock free: %v)", lf.kind, st, free),
							map[string]interface{}{"blocked_goroutines": pikeGoroutines(), "store_calls": ms.CallsSince(callsBefore), "trace": trace}, map[string]interface{}{"uri": k.uri, "burst": n})
						return
					}
					fetches := w.Farm.LogSince(before)
					calls := ms.CallsSince(callsBefore)
					fmu.Lock()
					lf, hadGet := lastGet[k.key], false
					fmu.Unlock()
					for _, c := range calls {
						if c.Key == k.key {
							reachedFault = reachedFault || c.Fault != ""
							if c.Op == "get" {
								hadGet = true
								if c.Fault != "" && len(c.Fault) > 7 && c.Fault[:7] == "garble:" && lf.decodable {
									k.tainted = true
									r.Add("well_formed_but_altered_records_served_to_pike", 1)
								}
							}
						}
					}
					trace = append(trace, fmt.Sprintf("burst %s n=%d now=%d labels=%v storecalls=%d", k.uri, n, now, labelsOf(results), len(calls)))
					cs := map[string]interface{}{"uri": k.uri, "burst": n, "now": now, "store_calls_during_burst": calls, "trace_tail": tail(trace, 12)}
					// versions created in this burst are known before its hits are judged
					for _, res := range results {
						if res.Err == nil && res.Label == "fetching" {
							k.versions[res.FetchID] = c10Version{res.FetchID, res.VRet, T}
						}
					}
					for _, res := range results {
						r.Eval(1)
						r.Add("requests", 1)
						if k.tainted && res.Label != "fetching" {
							// pike was handed a record that still decodes but was altered (the harness decoded it
							// itself): whatever comes of it - other bytes, another status code, even a status code
							// net/http refuses to send - is the known class; the key must recover once the record
							// has expired, which the following bursts judge
							if res.Err != nil || res.Status != 200 || !res.HasIdent || !res.Ident.Intact || res.Ident.URI != k.uri {
								r.Violate("undetectable_corruption_served", map[string]string{"class": "undetectable-corruption"}, fmt.Sprintf("a record altered without becoming malformed was taken over (no integrity field): status %d err %v", res.Status, res.Err), res.Brief(), cs)
							}
							continue
						}
						if res.Err != nil || res.Status != 200 {
							r.Violate("client_error_after_store_fault", map[string]string{"fault": lf.kind, "status": fmt.Sprint(res.Status)},
								fmt.Sprintf("status %d (err %v) although the upstream is healthy; last store read of the key returned %q (decodable=%v)", res.Status, res.Err, lf.kind, lf.decodable), res.Brief(), cs)
							return
						}
						k.tainted = false
						if !res.HasIdent || !res.Ident.Intact || res.Ident.URI != k.uri {
							r.Violate("wrong_or_damaged_body_after_store_fault", map[string]string{"fault": lf.kind}, "the response is not the intact body of this key", res.Brief(), cs)
							return
						}
						switch res.Label {
						case "fetching":
							var own *hx.Fetch
							for _, f := range fetches {
								if f.ReqID == res.ReqID {
									own = f
								}
							}
							if own == nil || own.ID != res.FetchID {
								r.Violate("fetching_without_own_contact", nil, "fetching response without its own upstream contact", res.Brief(), cs)
								return
							}
							k.versions[own.ID] = c10Version{own.ID, res.VRet, T}
							k.purgeBad = false
						case "hit":
							v, ok := k.versions[res.FetchID]
							if !ok && !k.purgeBad {
								r.Violate("hit_of_unknown_version", nil, "hit that is not a version of this key fetched earlier", res.Brief(), cs)
								return
							}
							if ok && now-v.created > v.t+1 && !k.purgeBad {
								r.Violate("stale_or_immortal_after_store_fault", map[string]string{"fault": lf.kind}, fmt.Sprintf("hit of a version created at %d with T=%d served at %d", v.created, v.t, now), res.Brief(), cs)
								return
							}
							if ok && st0.Exists && st0.Status == cache.StatusHit && hadGet && st0.ExpiredAt >= now {
								r.Violate("store_consulted_for_memory_resident_hit", nil, "the store was read although the key was resident in memory as a fresh hit", res.Brief(), cs)
								return
							}
						default:
							r.Violate("bad_record_not_a_plain_miss", map[string]string{"fault": lf.kind, "label": res.Label}, fmt.Sprintf("request labelled %q after the store returned a %s value: the record was taken over instead of being treated as a miss", res.Label, lf.kind), res.Brief(), cs)
							return
						}
					}
					// the request that received an undecodable record must have been an ordinary miss
					if hadGet && !lf.decodable && lf.kind != "ok" {
						r.Add("bad_or_missing_records_treated_as_miss", 1)
						nf := 0
						for _, res := range results {
							if res.Label == "fetching" {
								nf++
							}
						}
						if nf != 1 && !(st0.Exists && st0.Status != cache.StatusUnknown) {
							r.Violate("bad_record_not_a_plain_miss", map[string]string{"fault": lf.kind}, fmt.Sprintf("after a %s store value the burst has %d fetching requests (labels %v)", lf.kind, nf, labelsOf(results)), briefs(results), cs)
							return
						}
					}
					// quiescent invariant
					if st, free := entryState("c10", k.key); !free || (st.Exists && (st.Status == cache.StatusFetching || st.Waiters != 0)) {
						r.Violate("entry_not_settled_after_store_fault", map[string]string{"fault": lf.kind}, fmt.Sprintf("entry %+v (lock free %v) at quiescence", st, free), nil, cs)
						return
					}
				case op < 8:
					d := int64([]int{1, 2, 5, 6, 9}[rnd.Intn(5)])
					w.Clock.Advance(d)
					trace = append(trace, fmt.Sprintf("advance %d", d))
				case op < 9:
					callsBefore := ms.NCalls()
					if !purgeDirect(r, "c10", k.key, nil) {
						return
					}
					for _, c := range ms.CallsSince(callsBefore) {
						if c.Op == "delete" && c.Fault == "error" {
							k.purgeBad = true
							r.Add("purges_with_failed_store_delete", 1)
						}
					}
					if _, still := ms.Peek(k.key); k.purgeBad && !still {
						// the delete failed, but there is no record to come back (an earlier write was lost):
						// the entry is gone from memory, so the purge is as complete as any other
						k.purgeBad = false
						r.Add("purges_with_failed_store_delete_and_nothing_persisted", 1)
					}
					if !k.purgeBad {
						k.versions = map[int64]c10Version{}
					}
					trace = append(trace, "purge "+k.uri)
				default:
					for f := 0; f < 40; f++ {
						w.Cl.Get(w.Addr, "c10.example", fmt.Sprintf("/fill/%d", f))
					}
					r.Add("eviction_rounds", 1)
					trace = append(trace, "evict")
				}
			}
			fmu.Lock()
			faultsOn = false
			fmu.Unlock()
			if reachedFault {
				r.Distinct(fmt.Sprintf("history %d", hi))
			}
			if hi < 3 {
				r.Sample(map[string]interface{}{"trace_head": tail(trace, 10)})
			}
			if hi%20 == 0 {
				w.Farm.Trim()
			}
		}()
	}
	fmu.Lock()
	r.Set("faults_injected_by_op_and_kind", faultCount)
	fmu.Unlock()
	r.Set("points_hit", w.Pts.Counts())
	// directed: the store goes down after start-up. A response is cached memory-only (its write failed), then
	// purged (the delete fails too, and there is no record that could come back): the purge still empties
	// the memory, so the next request goes to the upstream
	for i := 0; i < r.Pick(6, 200) && !r.TooMany(); i++ {
		uri := fmt.Sprintf("/d10/%d/%d", r.Seed, i)
		key := "GET c10.example " + uri
		fmu.Lock()
		storeDown = true
		fmu.Unlock()
		get := func() *hx.Result {
			return w.Cl.Do(hx.Req{Addr: w.Addr, Host: "c10.example", URI: uri, Timeout: 8 * time.Second})
		}
		first, second := get(), get()
		purgeDirect(r, "c10", key, nil)
		third := get()
		fmu.Lock()
		storeDown = false
		fmu.Unlock()
		_, persisted := ms.Peek(key)
		if i%3 == 0 && !persisted {
			// the store is back: nothing that was purged while it was down may turn up in it later
			time.Sleep(1300 * time.Millisecond)
			if rec, back := ms.Peek(key); back {
				hc := cache.NewHTTPCache()
				if hc.FromBytes(rec) == nil {
					r.Violate("purged_record_written_back", nil, "a record of the key purged while the store was down appeared in the store after it came back", map[string]interface{}{"first": first.Brief(), "after_purge": third.Brief()}, map[string]interface{}{"uri": uri})
				}
			}
			r.Add("stores_watched_after_coming_back", 1)
		}
		r.Eval(1)
		r.Add("purges_while_the_store_is_down", 1)
		cs := map[string]interface{}{"uri": uri}
		switch {
		case first.Err != nil || second.Err != nil || third.Err != nil || first.Status != 200 || second.Status != 200 || third.Status != 200:
			r.Violate("request_failed_while_store_down", nil, "requests fail while every store call fails", map[string]interface{}{"first": first.Brief(), "second": second.Brief(), "third": third.Brief()}, cs)
		case second.Label != "hit":
			r.Violate("not_degraded_to_memory_only", nil, fmt.Sprintf("with the store down the second request is labelled %q (memory-only caching expected)", second.Label), second.Brief(), cs)
		case !persisted && third.Label == "hit" && third.FetchID == first.FetchID:
			r.Violate("purged_version_served_while_store_down", nil, "a purge issued while the store is down left the entry in memory: the next request is a hit of the purged version", map[string]interface{}{"before_purge": second.Brief(), "after_purge": third.Brief()}, cs)
		default:
			r.Distinct("purge_while_store_down")
		}
		w.Clock.Advance(10)
	}
	c10UnusableStore(r)
	checkRaceLog(r)
}

func tail(s []string, n int) []string {
	if len(s) > n {
		return s[len(s)-n:]
	}
	return s
}

// c10UnusableStore: the configured store cannot be opened at all (a badger directory below a regular file,
// a redis server nobody listens on). The cache must come up memory-only and serve as usual.
func c10UnusableStore(r *hx.Run) {
	blocker := filepath.Join(r.Scratch, "c10-regular-file")
	os.WriteFile(blocker, []byte("x"), 0644)
	dead := hx.DeadPort()
	for ci, storeURL := range []string{"badger://" + filepath.Join(blocker, "sub", "dir"), fmt.Sprintf("redis://127.0.0.1:%d/?timeout=1s", dead)} {
		kind := []string{"badger_directory_cannot_be_created", "redis_nobody_listening"}[ci]
		w := newSimpleWorld(r, hx.SimpleCfg{CacheName: fmt.Sprintf("c10u%d", ci), CacheSize: 16, HitForPass: "3s", Store: storeURL}, 1, true)
		w.Farm.SetScript(func(f *hx.Fetch) *hx.Reply {
			return &hx.Reply{Status: 200, Header: [][2]string{{"Cache-Control", "max-age=50"}, {"Content-Type", "text/plain"}}, Body: hx.IdentBody(f, 600, "text")}
		})
		cs := map[string]interface{}{"store": storeURL, "kind": kind}
		for k := 0; k < 3; k++ {
			uri := fmt.Sprintf("/c10u/%d/%d", ci, k)
			m := &entryModel{HFP: 3, TolerateStale: true}
			for n := 0; n < 3; n++ {
				before := w.Farm.LogLen()
				res := w.Cl.Do(hx.Req{Addr: w.Addr, Host: "c10.example", URI: uri, Timeout: 8 * time.Second})
				var fs []*hx.Fetch
				for _, f := range w.Farm.LogSince(before) {
					if f.URI == uri {
						fs = append(fs, f)
					}
				}
				r.Eval(1)
				r.Add("requests_with_unusable_store:"+kind, 1)
				if res.Err != nil || res.Status != 200 {
					if res.Err != nil {
						hangSeen(r)
					}
					r.Violate("request_failed_with_unusable_store", map[string]string{"store": kind}, fmt.Sprintf("the cache's store cannot be opened; request #%d for the key answered status %d err %v", n+1, res.Status, res.Err), res.Brief(), cs)
					break
				}
				if kd, text := m.burstCheck(w.Clock.Now(), []*hx.Result{res}, fs, func(*hx.Fetch) ans { return ans{Kind: "cacheable", T: 50} }, false); kd != "" {
					r.Violate(kd, map[string]string{"store": kind, "mode": "unusable_store"}, text, res.Brief(), cs)
					break
				}
			}
		}
		// the unchanged configuration is applied again (any unrelated configuration change does that):
		// the cache keeps working memory-only and keeps what it holds
		for round := 0; round < 2; round++ {
			w.apply(r)
			for k := 0; k < 3; k++ {
				uri := fmt.Sprintf("/c10u/%d/%d", ci, k)
				res := w.Cl.Do(hx.Req{Addr: w.Addr, Host: "c10.example", URI: uri, Timeout: 8 * time.Second})
				r.Eval(1)
				r.Add("requests_after_reapplying_the_configuration_with_unusable_store", 1)
				if res.Err != nil || res.Status != 200 {
					r.Violate("request_failed_with_unusable_store", map[string]string{"store": kind, "after": "configuration_reapplied"}, fmt.Sprintf("after the unchanged configuration was applied again the key is answered status %d err %v (%.120s)", res.Status, res.Err, res.Raw), res.Brief(), cs)
					break
				}
				if res.Label != "hit" {
					r.Violate("memory_only_cache_lost_by_reload", map[string]string{"store": kind}, fmt.Sprintf("the cache whose store cannot be opened forgot a fresh entry when the unchanged configuration was applied again (label %q)", res.Label), res.Brief(), cs)
					break
				}
			}
		}
		r.Distinct("unusable_store " + kind)
		w.Farm.Close()
	}
}

func init() { register("C10", "fault_enumeration", c10) }
