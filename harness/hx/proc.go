package hx

import (
	"fmt"
	"os"
	"os/exec"
	"path/filepath"
	"strconv"
	"strings"
	"sync"
	"syscall"
	"time"

	"github.com/vicanso/pike/config"
	"gopkg.in/yaml.v2"
)

var buildMu sync.Mutex
var builtPike string

// BuildPike builds the real pike binary from /repo's working tree (-race -tags verif) into dir
func BuildPike(dir string) (string, error) {
	buildMu.Lock()
	defer buildMu.Unlock()
	if builtPike != "" {
		return builtPike, nil
	}
	out := filepath.Join(dir, "pike-bin")
	cmd := exec.Command("go", "build", "-race", "-tags", "verif", "-o", out, ".")
	cmd.Dir = "/repo"
	if d := os.Getenv("VERIF_REPO"); d != "" {
		cmd.Dir = d
	}
	cmd.Env = append(os.Environ(), "GOFLAGS=-mod=mod", "GOPROXY=off", "GOSUMDB=off", "GOTOOLCHAIN=local")
	if b, err := cmd.CombinedOutput(); err != nil {
		return "", fmt.Errorf("build pike: %v: %s", err, b)
	}
	builtPike = out
	return out, nil
}

// Pike one real pike process
type Pike struct {
	Bin       string
	Dir       string
	CfgPath   string
	AdminAddr string
	ClockFile string
	EventFile string
	LogPath   string
	Points    string
	Seed      int64
	ExtraEnv  []string

	mu      sync.Mutex
	cmd     *exec.Cmd
	exited  chan struct{}
	Starts  int
	LastErr error
}

// NewPike prepares dir (config, clock file); cfg is written as YAML
func NewPike(bin, dir string, cfg *config.PikeConfig, adminPort int) (*Pike, error) {
	os.MkdirAll(dir, 0755)
	p := &Pike{Bin: bin, Dir: dir, CfgPath: filepath.Join(dir, "pike.yml"), ClockFile: filepath.Join(dir, "clock"), EventFile: filepath.Join(dir, "events"), LogPath: filepath.Join(dir, "pike.log")}
	if adminPort != 0 {
		p.AdminAddr = "127.0.0.1:" + strconv.Itoa(adminPort)
	}
	if err := p.WriteConfig(cfg); err != nil {
		return nil, err
	}
	p.SetClockOffset(0)
	return p, nil
}

// WriteConfig writes the YAML config with one write call (no truncate-then-write window)
func (p *Pike) WriteConfig(cfg *config.PikeConfig) error {
	data, err := yaml.Marshal(cfg)
	if err != nil {
		return err
	}
	return os.WriteFile(p.CfgPath, data, 0600)
}

// SetClockOffset seconds added to the real clock inside pike (re-read on every clock call)
func (p *Pike) SetClockOffset(off int64) {
	tmp := p.ClockFile + ".tmp"
	os.WriteFile(tmp, []byte(strconv.FormatInt(off, 10)), 0644)
	os.Rename(tmp, p.ClockFile)
}

// SetClockAbs an absolute time replacing the real clock inside pike (re-read on every clock call)
func (p *Pike) SetClockAbs(v int64) {
	tmp := p.ClockFile + ".tmp"
	os.WriteFile(tmp, []byte("="+strconv.FormatInt(v, 10)), 0644)
	os.Rename(tmp, p.ClockFile)
}

// Start launches the process and waits until every addr listens
func (p *Pike) Start(waitAddrs []string, d time.Duration) (time.Duration, error) {
	p.mu.Lock()
	args := []string{"--config", p.CfgPath, "--log", p.LogPath}
	if p.AdminAddr != "" {
		args = append(args, "--admin", p.AdminAddr)
	}
	cmd := exec.Command(p.Bin, args...)
	cmd.Dir = p.Dir
	cmd.Env = append(os.Environ(), "VERIF_CLOCK_FILE="+p.ClockFile, "VERIF_EVENT_FILE="+p.EventFile, "VERIF_POINTS="+p.Points, "VERIF_SEED="+strconv.FormatInt(p.Seed, 10),
		"GORACE=halt_on_error=0 exitcode=0 log_path="+filepath.Join(p.Dir, "race"))
	cmd.Env = append(cmd.Env, p.ExtraEnv...)
	errf, _ := os.OpenFile(filepath.Join(p.Dir, "stderr.log"), os.O_CREATE|os.O_APPEND|os.O_WRONLY, 0644)
	cmd.Stdout, cmd.Stderr = errf, errf
	t0 := time.Now()
	if err := cmd.Start(); err != nil {
		p.mu.Unlock()
		return 0, err
	}
	p.cmd = cmd
	p.Starts++
	exited := make(chan struct{})
	p.exited = exited
	p.mu.Unlock()
	go func() {
		p.LastErr = cmd.Wait()
		errf.Close()
		close(exited)
	}()
	for _, a := range waitAddrs {
		deadline := time.Now().Add(d)
		for {
			if err := WaitListening(a, 50*time.Millisecond); err == nil {
				break
			}
			select {
			case <-exited:
				return time.Since(t0), fmt.Errorf("pike exited during start: %v", p.LastErr)
			default:
			}
			if time.Now().After(deadline) {
				return time.Since(t0), fmt.Errorf("pike does not listen on %s after %v", a, d)
			}
		}
	}
	return time.Since(t0), nil
}

// Alive whether the process runs
func (p *Pike) Alive() bool {
	p.mu.Lock()
	ex := p.exited
	p.mu.Unlock()
	if ex == nil {
		return false
	}
	select {
	case <-ex:
		return false
	default:
		return true
	}
}

// Signal sends a signal
func (p *Pike) Signal(sig syscall.Signal) {
	p.mu.Lock()
	defer p.mu.Unlock()
	if p.cmd != nil && p.cmd.Process != nil {
		p.cmd.Process.Signal(sig)
	}
}

// Kill SIGKILL and wait
func (p *Pike) Kill() {
	p.Signal(syscall.SIGKILL)
	p.WaitExit(10 * time.Second)
}

// WaitExit waits for the process to end
func (p *Pike) WaitExit(d time.Duration) bool {
	p.mu.Lock()
	ex := p.exited
	p.mu.Unlock()
	if ex == nil {
		return true
	}
	select {
	case <-ex:
		return true
	case <-time.After(d):
		return false
	}
}

// ProcEvent one line of the event file
type ProcEvent struct {
	Nano int64
	PID  int
	Name string
	N    int64
}

// Events parses the event file
func (p *Pike) Events() []ProcEvent {
	buf, err := os.ReadFile(p.EventFile)
	if err != nil {
		return nil
	}
	var out []ProcEvent
	for _, l := range strings.Split(string(buf), "\n") {
		f := strings.Fields(l)
		if len(f) != 4 {
			continue
		}
		var e ProcEvent
		e.Nano, _ = strconv.ParseInt(f[0], 10, 64)
		e.PID, _ = strconv.Atoi(f[1])
		e.Name = f[2]
		e.N, _ = strconv.ParseInt(f[3], 10, 64)
		out = append(out, e)
	}
	return out
}

// CountEvent number of events with the name
func (p *Pike) CountEvent(name string) int {
	n := 0
	for _, e := range p.Events() {
		if e.Name == name {
			n++
		}
	}
	return n
}

// RaceReports raw race detector output of the pike process(es) in this dir
func (p *Pike) RaceReports() string {
	files, _ := filepath.Glob(filepath.Join(p.Dir, "race*"))
	var sb strings.Builder
	for _, f := range files {
		b, _ := os.ReadFile(f)
		sb.Write(b)
	}
	return sb.String()
}
