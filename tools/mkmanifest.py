#!/usr/bin/env python3
"""Generates /verif/MANIFEST.json from the table below and validates it (python3-vt has jsonschema)."""
import json, subprocess, sys, os
HERE = os.path.dirname(os.path.dirname(os.path.abspath(__file__)))

# id: (engine, level, technique, level text, level note, design ref)
CHECKS = {
 "C11": ("inproc", "exploration",
   "online invariant monitor on hooked LRU state + eviction-event replay against a reference recency list",
   "Every size 1..64 (thorough 1..300) plus large sizes, four access patterns each, >=50*S operations: resident count read under each shard's own lock after every operation and every eviction event compared with a replayed per-shard LRU; a reload that configures the same cache name with another size (bound = the larger size, whichever is in effect); reloads applied step by step (as main.update does) with client requests arriving between the cache step and the server step while a cache is renamed away and later configured again under its old name; then end-to-end through real servers with tiny caches (with and without a store), incl. fetches still in flight while their shard is filled by other keys and populations of 3S+20 uncacheable keys (at most S may still answer hitForPass when asked again) and of cacheable keys on caches whose configured store cannot be opened (at most S may still answer hit). Holds on the executions produced, not a proof.",
   "trusts lru.Cache.Len read through the tag-guarded VerifStats hook and the OnEvicted callback of groupcache; sequential access at the dispatcher level (concurrent access is C06/C20)",
   "DESIGN.md 6/C11"),
 "C14": ("inproc", "exploration",
   "reference-model monitor over exhaustive/random lookups + end-to-end origin observation",
   "Exhaustive over ordered tuples of <=3 location shapes (2 hosts x 3 prefixes), name subsets and 15 queries against an independent routing predicate (any member of the best class accepted), sampled 4-tuples and random larger universes with duplicate names and prefix lengths from 1 to 236 characters; then random configurations applied as reloads to a running server with one origin per location, incl. percent-encoded request URIs (matched as sent) and requests carrying X-Forwarded-Host / Forwarded headers that name another configured host: which origin saw the request, 5xx and no upstream contact when nothing matches; locations whose only prefix is the catch-all /; locations whose upstream has no server alive (the request fails, it is not handed to a less specific location); a second server with its own list; every second configuration applied under traffic with unchanged server lists and 40 decoy locations with rewrite rules.",
   "the reference predicate encodes the statement (class order prefix+host < prefix < host < none); ties inside a class are not judged",
   "DESIGN.md 6/C14"),
 "C04": ("inproc", "exploration",
   "offline replay of recorded client/origin histories against the cache-entry reference model under a virtual clock; directed hook-point schedule; interval-sound monitor under a ticking clock",
   "Generated timed histories (lifetimes 1..2^31-1, origin Age none/0/1/T-1, advances landing before/at/after the expiry second, bursts of 1-8) replayed exactly against the entry model in both directions (fresh => hit of the epoch's fetch with Age = elapsed, expired => exactly one refetch that replaces the entry); a directed schedule puts a clock tick between lookup and answer (with and without a refetch in between); a concurrent mode with a ticking clock and a hostile mode in which every clock reading advances the clock are judged with interval bounds. One step in eight is preceded by a reload that changes the caches' restart-only options. Half of the histories come from an origin whose own Date header is 45 s or a day away from the real clock. One history in three interleaves HEAD requests on the same URI (their own key, entry and lifetime). Histories also run against a cache whose store keeps records past their expiry and against a tiny cache that is evicted between steps; lifetimes also come from s-maxage with a contradicting max-age.",
   "pike's only clock seam (cache.nowUnix) is virtualised by a tag-guarded hook; no eviction (cache 100000 >> keys); Age arithmetic when the origin sent its own Age is not judged; a premature refetch of a fresh entry is counted, not judged (that is C01)",
   "DESIGN.md 6/C04"),
 "C01": ("inproc", "exploration",
   "origin-side in-flight overlap monitor + per-epoch exactly-once accounting + porcupine linearizability of recorded histories; hook-point directed schedule; race detector",
   "Bursts of 2-64 identical cold GET (every fifth burst HEAD) requests on 1-4 keys over 1-3 epochs, some with an unsafe request on the same URI passing through during the fetch and a late request after it, with the fetch held at the origin until the hook counter shows every other request parked (so coalescing is really exercised), jitter at four hook points between pike's critical sections; directed schedules: expiry between a waiter's wake-up and its resumption while the next fetcher is in flight (the quantifier's case), expiry between the dispatcher lookup and the entry lookup, and clock jumps of 5 s to 1 h while a fetch is in flight followed by new arrivals; staggered clients with a concurrent clock advancer checked per key with porcupine; bursts whose one fetch fails after the upstream received it (no answer before the proxy timeout, connection reset, half a body): no client request may reach the upstream twice. Evidence lists parked waiters and distinct interleaving signatures.",
   "virtual clock and hook points (tag-guarded); no eviction or purge during a fetch (cache 100000 >> keys, asserted through the eviction hook); interleavings are those the stressors produce plus the directed one",
   "DESIGN.md 6/C01"),
 "C07": ("inproc", "exploration",
   "reference-model replay of recorded histories + origin in-flight monitor with all contacts held (not-queued oracle) + hooked entry state + porcupine",
   "Histories for seven configured periods (incl. non-positive and sub-second => 300 s): probes answered uncacheable / without Cache-Control / 5xx / protocol error / cacheable, bursts of 1-24 (and 64, wider than the connection pools involved) at mark+0, +1, +P-1, +P and +P+1; a request that is neither at the origin, parked nor answered after 30 s counts as queued before the upstream; probes also fail by a truncated body (abort panic in the handler); during the period the origin holds every contact until all N of the burst are in flight together (independent, not queued) and the hook counter shows nobody parked; at +P+1 exactly one probe is in flight and N-1 are parked; two instances keep their markers in a store behind a tiny cache that is evicted inside the period; in a third of the histories the unchanged configuration is applied again inside the period; staggered porcupine histories with a concurrent clock advancer.",
   "virtual clock and hook points; no eviction; a transport-level retry of one request counts as one contact",
   "DESIGN.md 6/C07"),
 "C02": ("inproc", "fault_enumeration",
   "conservation monitor (every call event has a return event) + quiescent invariant on hooked entry state + follow-up probe, over enumerated fetch outcomes x waiter positions; goroutine dump only as witness",
   "Enumerates 9 fetch outcomes (cacheable, uncacheable, 5xx, upstream protocol error, undecodable body = no response object, hang beyond ProxyTimeout, panic at the proxy hook, truncated upstream body = net/http abort panic, header and half a body followed by silence, fetcher's client dropping its connection) x 7 waiter situations (parked; one waiter registered but not yet receiving while the completion runs; the same with a purge of the key; arriving after completion; a coalesced client dropping its connection; the fetching entry evicted from its shard; the cache clock jumping two minutes during the fetch followed by a late arrival), every second repeat the fetcher's own request carries Range / If-Range / If-None-Match / If-Modified-Since; then random outcome sequences across epochs on one key. Verdict: all requests returned, the fetch completion ran to its end (hook counters) with the entry lock free, entry status != fetching and no registered waiters at quiescence, each waiter either got the fetched response or made its own upstream contact, follow-up served normally.",
   "liveness restated as bounded progress at quiescence (20 s watchdog only triggers the state inspection); termination without ProxyTimeout against a never-answering upstream is not demanded",
   "DESIGN.md 6/C02"),
 "C18": ("inproc", "exploration",
   "reference-model replay + store inspection + ordering check on event sequence numbers + porcupine linearizability per (cache,key)",
   "Three caches (without and with a scripted store) behind three servers sharing the Host, purges through the real admin DELETE /cache: sequential purge variants (named, unnamed, absent cache, absent key, repeated; keys with percent escapes, '+' and '%25' in path and query) with the persisted record inspected and the next request on every cache and on a neighbour key judged by the entry model; purge issued while the fetch is held at the origin with parked waiters (must return before the release; nobody stranded); a lookup issued while the purge sits in a slow store delete, and a purge right after a fill whose store write is slow (40 ms, and stalls of 2.3 s from which the store recovers); keys longer than 512 bytes; concurrent histories of requests, purges and clock advances checked per (cache,key) with porcupine.",
   "which way a purge concurrent with a fetch is ordered is not judged (linearizability leaves it open); in-memory scripted store stands for the persistent one",
   "DESIGN.md 6/C18"),
 "C03": ("inproc", "exploration",
   "differential monitor: independent token-level shareability predicate vs observed reuse; origin log vs client log for exactly-once and label truthfulness",
   "Generated upstream header sets (lifetime, blocking, harmless and extension directives in any order, casing, separators, 1-3 lines, quoted arguments, duplicates; Set-Cookie incl. an empty first line; valid and invalid Age; values 0..20 digits; Expires/Last-Modified; 12 status codes; 7 methods), each on a fresh URL, first as one request or a burst of 3 and then repeated: a reuse of the first response is a violation unless the predicate says shareable; every hit has no upstream contact, every other successful answer exactly one, non-GET/HEAD are forwarded exactly once each - also when the upstream reads the request and drops the connection.",
   "only stored => shareable is judged (the converse is counted); duplicate directives with different values, unparsable numbers and invalid Age are left unjudged",
   "DESIGN.md 6/C03"),
 "C13": ("inproc", "exploration",
   "decision-table monitor (reference table vs HTTPResponse.Fill and vs the running server) + compressor call counters (hook) + byte comparison with the best-compression profile",
   "The table dimensions of the statement are enumerated completely at the Fill level (14 Accept-Encoding values incl. tokens that merely contain 'gzip' and weighted codings, 7 stored-variant subsets, 4 sizes around two thresholds, default/custom filter, 6 content types (end-to-end also values with parameters, sloppy parameter syntax and upper case), direct and after Cacheable()) with random bodies per cell; end-to-end through servers with default and configured thresholds/filters (two of them with an 8-entry LRU over a store, earlier keys revisited after eviction; two reconfigured by a reload of the running server; text, repetitive and incompressible bodies; upstreams that answer gzip or br encoded themselves; lifetimes from 1 s to a day; hits on one stored version with one Accept-Encoding must always get the same encoding, over HTTP/1.1 and HTTP/1.0): compressor call counters around every hit (no per-request recompression) and around bursts of coalesced requests on cold compressible keys (exactly one gzip and one br run), stored variants byte-compared with the best-compression profile's output.",
   "where the raw length and the lengths pike can see straddle the threshold both outcomes are accepted; Accept-Encoding without q-values",
   "DESIGN.md 6/C13"),
 "C05": ("inproc", "exploration",
   "end-to-end differential monitor: client-side decode with reference decoders against the origin's logged original; header multiset comparison",
   "Generated (body length incl. threshold neighbours and 2 MiB, kind incl. >1000x compressible, upstream encoding identity/gzip/br/lz4/zst/snz, content type, status, cacheable or not, GET/POST) on six servers (min-length default/1/100/64kb, custom filter, compress levels 1, 9/11, out of range, tiny cache with store); upstream gzip also as multi-member streams; every path of the statement: fetching request and coalesced waiters, later hits, hits on entries stored much earlier in the run, an alias stress phase (many small compressible entries stored in quick succession, read back sequentially and by concurrent identity clients), hit after eviction and restore from the store, hit-for-pass, passed; each request with its own Accept-Encoding list. Judged: status, decoded body identical, Content-Encoding among the accepted tokens, Content-Length, end-to-end headers as multiset with per-name order.",
   "reference codecs for br/lz4/zst/snz are the libraries pike links (self-checked by round trip); Date/Connection/Content-Length/Content-Encoding/Age/X-Status and hop-by-hop headers excluded",
   "DESIGN.md 6/C05"),
 "C15": ("inproc", "exploration",
   "differential monitor: origin request log vs reference transformation of the client request; client response vs origin response + configured headers; second-client probe after conditional/Range requests",
   "Eight locations (unchanged, the two documented rewrite forms, literal swap, a two-rule rewrite chain applied rule after rule, added request/response headers, added query parameters, upstream Accept-Encoding override); generated methods, bodies up to 1 MiB (also on GET), upstream statuses 200/201/404/500/503 on the pass-through methods, one location over an enableH2C upstream, an upstream answering after 11 s and a body uploaded over 11 s, multi-valued and credential headers, escaped paths, queries with repeated keys/escapes/value-less parameters; chunked request bodies; conditional (matching and non-matching ETag / Last-Modified, ETag mismatch with matching Last-Modified) and Range (first bytes, suffix, multi-range, If-Range) headers on cold, hit and hit-for-pass keys (also keys whose upstream turns cacheable during the period) against an http.ServeContent origin; after client A a plain client B must receive the full 200.",
   "not judged: malformed queries, If-Match/412, X-Forwarded-For/User-Agent, upstream Accept-Encoding when the client sent none, conditional headers on a cold uncacheable fetch, 304 for HEAD",
   "DESIGN.md 6/C15"),
 "C06": ("inproc", "exploration",
   "per-response self-identification oracle (origin echoes method/Host/URI into body and headers) under concurrent traffic with forced shard collisions and constant eviction; race detector + checkptr; dispatcher-level entry identity",
   "220 near-identical keys (slash/digit/case/escape differences, queries differing in one byte or only by '?', five hosts incl. one with a port and one differing in case, GET vs HEAD, 1.8 kB URIs differing in the last byte, 60 keys forced into one shard via MemHash) on caches of size 8/24/64 and a store-backed one of 16, lifetime 1 s so that entries are also refetched after expiry, 32 concurrent clients, a quarter of the requests with X-Forwarded-Host/Forwarded/X-Original-Url headers, every resource with the same strong ETag and every seventh with a body of exactly 1500 bytes; the store-backed cache uses pike's badger store and is also asked for request targets with raw non-UTF-8 bytes: every 2xx answer must echo exactly the requester's method, Host and URI; one million generated keys at the dispatcher level must resolve to pairwise distinct, stable entries.",
   "the origin's echo is ground truth; evictions are observed through the eviction hook (tens of thousands per run)",
   "DESIGN.md 6/C06"),
 "C09": ("inproc", "exploration",
   "round-trip behavioural equivalence monitor + byte-level mutation with panic/hang/allocation monitors in isolated child processes",
   "Structured entries (all states, 0-200 header lines incl. UTF-8, control and non-UTF-8 bytes, every subset of body variants up to 2 MiB, profile names, filters, extreme clock values and lifetimes) are encoded, decoded and compared through the exported API (Get/Age/Fill for 6 Accept-Encoding values at +0,+1,+T,+T+1 s); on 200 valid records: truncation at every offset must error, bit flips, length-field edits, splices, random strings and crafted filter fields must not panic, hang (20 s) or allocate more than 32x input + 1 MiB (MemStats delta); directed valid records (8 MiB bodies compressed 200x and more, a 60 kB header set) must round-trip and decode within the same allocation bound; records with different settings are decoded by 8 goroutines at once and must re-encode to themselves. A dead child is a verdict with the logged case index as witness.",
   "truncation of a bare response record is not judged; thorough tier multiplies batches (8) instead of coverage-guided fuzzing",
   "DESIGN.md 6/C09"),
 "C12": ("inproc", "exploration",
   "round-trip oracle with pike's, standard and independent (gzip CLI, python zlib, zstd CLI) decoders; crash/hang monitor in isolated child processes",
   "pike's Gzip/Brotli at levels -1..12 plus out-of-range 99/-7 on lengths 0..64, powers of two +-1 up to 1 MiB and random lengths with random/text/runs/zero content; valid streams of all five formats from self-checked reference encoders (multi-member gzip, gzip headers with FNAME/FCOMMENT/FEXTRA/MTIME, brotli windows 2^10..2^24 with flushes, zstd CLI output and zstd streaming-encoder frames declaring windows 2^10..2^25, ratios beyond 200x for lz4 and far more for br/zst) must be restored exactly by pike's decoders; earlier results are kept and re-verified after later operations (no shared buffers); malformed streams (truncation incl. every offset of small streams, bit flips, header edits, random bytes, doubled streams) under a per-case watchdog in a child process, a known-good stream of the format being restored right after every second malformed one; snz and lz4 blocks of every length 0..4200; header edits over the first 14 bytes incl. zstd frames claiming a content size near 2^64; zstd streams with skippable frames and several data frames; 16 goroutines encoding and decoding at once.",
   "a malformed stream decoding to some bytes without error is accepted; survival + output validity stand in for memory safety of the third-party assembly decoders",
   "DESIGN.md 6/C12"),
 "C10": ("inproc", "fault_enumeration",
   "online monitor over client results + scripted store call log + hooked entry state, under per-call store fault injection",
   "Every store call draws from {ok, not-found, error, delay, value truncated, random bytes, bit flip in header region / elsewhere, status field overwritten, empty} over histories of bursts, expiry, purge and eviction on a 16-entry cache with a healthy origin. Judged: always 200 with the key's intact body, hits only of still-valid versions, a memory-resident fresh hit never reads the store, an undecodable record yields an ordinary fetching miss, nobody stranded and no entry left fetching (hooked state at quiescence). Finally the configured store cannot be opened at all (badger directory below a regular file, redis nobody listens on): the cache serves memory-only and keeps its entries when the unchanged configuration is applied again; with the store going down after start-up, responses are cached memory-only, a purge still empties the memory and nothing purged turns up in the store after it came back. Garbled values that still decode are classified by the harness decoding them itself and only taint the key.",
   "well-formed-but-altered records cannot be detected without an integrity field (known finding class undetectable-corruption); a purge whose store delete failed is not judged afterwards",
   "DESIGN.md 6/C10"),
 "C08": ("proc", "fault_enumeration",
   "crash-point enumeration on the real binary (self-kill at named hook points, external SIGKILL, SIGTERM) + offline check of every post-restart answer against the origin's log under a controlled clock",
   "Real pike (race build) on a badger store with a clock file holding an absolute virtual time (no verdict depends on how long anything takes; the creation bound of an entry is exact). Every second case uses an LRU of 32 entries for about 100 keys. Four incarnations per case on the same store: populate (8 keys sequentially, 48 in one concurrent burst) and SIGKILL at quiescence; concurrent writes, hits and purges with the crash armed at the n-th passage of one of 8 hook points (before/after publishing, after persisting, after a load, between LRU removal and store delete), or SIGKILL at a random moment, or SIGTERM; restart and probe every key in the same second, at mid-life, at the exact expiry second and one second later; in-process, responses whose origin sent its own Age must show an Age that does not fall when the memory is dropped and the record reloaded; kill again, move the clock past every expiry, restart and probe (first lookup after the restart). Each answer must be a byte-identical version of that key from the origin's log, hits only inside the original lifetime with Age continuing from the original fetch and without upstream contact, never a version whose purge completed, hit-for-pass only inside a marker's period; pike must come up after every stop.",
   "refetch is always allowed; SIGKILL does not model power loss; eviction/reload with an LRU smaller than the working set is exercised in-process by C04/C05/C07/C11 with scripted stores",
   "DESIGN.md 6/C08"),
 "C17": ("proc", "exploration",
   "independent closure predicate and per-field rules vs Validate; structural round-trip comparison through the real file client; probes against freshly started real processes",
   "Generated configurations with names and free-text values that need YAML quoting: Validate must accept each valid one and reject each of 33 single injected defects (every dangling reference at first and last position, every malformed documented field); Write then Read must return the same configuration, also when the stored document was replaced from outside between two saves of the same configuration; accepted configurations (names with leading/trailing white space and store urls that cannot be opened included) are applied to fresh real pike processes and every server is probed: no 'cache dispatcher / upstream not found', no 'location not found' where the reference router finds one; two accepted configurations saved to a running instance in quick succession (the second, renaming everything the server refers to, while the first is still being applied; a third renaming only the upstream a location refers to) must leave the server resolving everything.",
   "documented field kinds only; the hostname rule is the validator's (RFC 952); duplicate names and sub-second durations are accepted by pike and not judged",
   "DESIGN.md 6/C17"),
 "C16": ("proc", "exploration",
   "differential monitor between a live-updated and a freshly started real process + continuity monitor under traffic; completion observed through hook events",
   "Per sequence a live pike process receives 2-6 random valid updates (32 mutation kinds incl. optional fields set and unset; half of the in-place writes are followed at once by an admin GET /config) through the real admin PUT /config or an in-place write of the file, each completion observed via the update.done hook, while a client keeps requesting an unchanged server (judged) and three more the server being reconfigured (not judged); a second process is started on the final configuration; a probe suite derived from that configuration is run against both and compared field by field (status, label, encoding, encoded and decoded bytes, headers, which origin saw which path, query and added headers), plus cache binding between servers, the retained hit of a key cached before the updates, and that a removed server stops listening. The unchanged server gets cacheable and uncacheable traffic and its upstream has a slow health endpoint. Thirteen directed sequences run every time: a server re-added inside the graceful close of its old listener followed by an unrelated update 13 s later (it must be listening then); a rewrite rule whose replacement changes while its pattern stays; an upstream's enableH2C set, unset and set again (the protocol the origin sees is compared); the last compress profile (a bestCompression override) removed so that the whole section disappears from the saved file; a client's kept-alive connection to a removed server must not be served as before; a configuration saved while the previous one (with an upstream whose health endpoint takes seconds) is still being applied; bestCompression override and removal; server removed and re-added at once; server switched to another cache; cache renamed; compress level set then unset; two servers removed by one update; two caches on one badger store of which one is removed (persisted entries of the survivor); restart-only cache settings changed.",
   "restart-only settings are never changed; compressors are deterministic so equal levels give equal bytes",
   "DESIGN.md 6/C16"),
 "C19": ("inproc", "fault_enumeration",
   "ground-truth monitor: the driver's up/down vector vs per-origin request counters, with settling observed through health-check activity at the origins",
   "14 (thorough 100) upstream groups in one in-process pike whose unchanged configuration is re-applied before odd phases, plus two groups behind the real binary (eight round-robin primaries and primary+backup, all down / all up alternately: more than eight transitions to sick, no alarm URL), covering every primary/backup mix of 1-4 servers, five policies, health checks by path (/ping, /) and by port; in a quarter of the groups 'down' means answering the health check with 503 while still listening; origins are really stopped and restarted on the same port in phases (all down, primaries down, first down, random, recovery). After each change the driver waits for two health-check rounds observed after the change on a live server (11.5 s if none), then 12 sequential requests per group must go to healthy primaries, to healthy backups only when no primary is healthy, be balanced within 1 under round-robin, or fail with a 5xx within 2 s when nothing is healthy (a slow answer is retried before it is judged; also after 200 clients sent a request and went away at once); traffic must resume after recovery. Finally, with everything healthy, single requests fail for reasons that are not the server's (client gives up after 150 ms, location proxy timeout of 1.5 s) and one slow request is held on every primary of groups with backups: the following 12 requests are judged by the same rule.",
   "the upstream library's 5 s ticker has no clock seam (wall-clock bound); behaviour inside the unsettled window is not judged",
   "DESIGN.md 6/C19"),
 "C20": ("inproc", "exploration",
   "Go race detector over a mixed stress workload (logs parsed and de-duplicated by outermost pike entry-point pair) + per-response integrity oracle + crash monitor; in-process child and real binary",
   "A race-instrumented child process runs pike in-process with two servers/caches, 1 s lifetimes and hit-for-pass on the real clock, 64 clients (12 hot keys, 600 long-lived warm keys of equal length over caches of 64 and 400 entries, cold and uncacheable keys, GET/HEAD/POST, six Accept-Encoding values, matching and non-matching validators), a purger through the admin API and a reloader alternating two configurations (three of four reloads add a compress level for a never-seen encoding name) through the calls main.update uses, with hook callbacks removed; every answer must be well-formed and equal to what the upstream produces for its key (304 only for matching validators). The same stress is repeated from a build without race instrumentation (about ten times the requests; functional oracle only), once with the same mix and once with nine in ten requests on the warm keys. A directed schedule releases a woken waiter and the next request without ordering them. The real binary runs under 16 clients and a storm of admin config saves. Every race report with a pike frame and every crash is a violation.",
   "the race detector only sees produced interleavings; a request landing between two steps of one reload may get pike's own 503 not-found (counted, not judged here)",
   "DESIGN.md 6/C20"),
}
ALL = ["C%02d" % i for i in range(1, 21)]
NOT_BUILT_REASON = "no check is registered for this property yet (framework under construction; see DESIGN.md Appendix B build order)"
NA = {}

def hook_commits():
    out = subprocess.run(["git", "-C", "/repo", "log", "--format=%H %s"], capture_output=True, text=True).stdout
    return [l.split()[0] for l in out.splitlines() if " verif hook" in l][::-1]

m = {
 "version": 1,
 "setup_cmd": "./setup.sh",
 "hooks": {
   "guard": "verif",
   "enable": "go build -tags verif (the harness module replaces github.com/vicanso/pike with /repo, so every check rebuilds pike from /repo's working tree with the tag on)",
   "baseline_off_cmd": "./tools/baseline_off.sh",
   "source_commits": hook_commits(),
   "add_only": True,
 },
 "engines": [
   {"name": "inproc", "path": "harness/cmd/vrun", "kind_free_text": "driver process linking pike's packages (-tags verif, -race where concurrency matters); a real pike server is started on loopback exactly as main.update() does and driven over HTTP against scripted origins; virtual clock and hook points in-process",
    "serves_properties": [k for k, v in CHECKS.items() if v[0] == "inproc"]},
   {"name": "proc", "path": "harness/cmd/vrun", "kind_free_text": "the real pike binary built from /repo (-race -tags verif) with file config, admin port, badger directory, clock file; kill/restart/reload from outside",
    "serves_properties": [k for k, v in CHECKS.items() if v[0] == "proc"]},
 ],
 "checks": [],
 "not_applicable": [],
 "notes": "Technique family: runtime monitoring. Exit 0 = held on everything explored (KNOWN-FINDING lines allowed), 1 = unlisted violation (VIOLATION line), 2 = inconclusive as a whole (could not build or start, observed too little, or many cases could not be set up), 3 = harness or build error. A few cases whose set-up watchdog fired are printed as INCONCLUSIVE-CASE (not judged), counted in the evidence and do not change exit 0. KNOWN_FINDINGS.json is read-only at run time.",
}
for pid in ALL:
    if pid in CHECKS:
        eng, level, tech, text, note, ref = CHECKS[pid]
        m["checks"].append({
          "property_id": pid,
          "quick_cmd": "./check %s quick" % pid,
          "thorough_cmd": "./check %s thorough" % pid,
          "evidence_file": "evidence/%s.json" % pid,
          "replay_cmd_template": "./check %s --replay {path}" % pid,
          "engine": eng,
          "level_claimed": {"category": level, "text": text, "design_ref": ref},
          "level_note": note,
          "technique": tech,
        })
    else:
        m["not_applicable"].append({"property_id": pid, "reason": NA.get(pid, NOT_BUILT_REASON)})
json.dump(m, open(os.path.join(HERE, "MANIFEST.json"), "w"), indent=1)
try:
    import jsonschema
    jsonschema.validate(m, json.load(open("/root/.vp/MANIFEST.schema.json")))
    for c in m["checks"]:
        p = os.path.join(HERE, c["evidence_file"])
        if os.path.exists(p):
            jsonschema.validate(json.load(open(p)), json.load(open("/root/.vp/EVIDENCE.schema.json")))
    print("MANIFEST valid; %d checks, %d not claimed" % (len(m["checks"]), len(m["not_applicable"])))
except ImportError:
    print("jsonschema not available, not validated")
