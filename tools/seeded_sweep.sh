#!/bin/bash
# tools/seeded_sweep.sh [names...] — developer tool: for every seeded change under /verif/seeded run the
# checks named in its meta.json "caught_by" against a scratch worktree carrying the change and report
# whether at least one of them raises a violation.
cd "$(cd "$(dirname "$0")/.." && pwd)"
NAMES="$@"; [ -z "$NAMES" ] && NAMES=$(ls seeded)
miss=0
for n in $NAMES; do
  ids=$(python3 -c "
import json,re
m=json.load(open('seeded/$n/meta.json'))
print(' '.join(dict.fromkeys(re.findall(r'C\d\d', m.get('caught_by','')))))")
  out=$(tools/try_mutant.sh "$PWD/seeded/$n/patch.diff" $ids 2>&1)
  if echo "$out" | grep -q CAUGHT; then echo "$n: caught by $(echo "$out" | grep CAUGHT | cut -d: -f1 | tr '\n' ' ')"; else echo "$n: NOT CAUGHT ($ids): $(echo "$out" | tail -2 | cut -c1-200)"; miss=1; fi
done
exit $miss
