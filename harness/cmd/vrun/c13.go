package main

import (
	"bytes"
	"fmt"
	"math/rand"
	"net/http"
	"net/http/httptest"
	"regexp"
	"strconv"
	"strings"
	"sync/atomic"
	"time"

	"github.com/vicanso/elton"
	"github.com/vicanso/pike/cache"
	"github.com/vicanso/pike/compress"
	"verifh/hx"
)

// C13: content-encoding negotiation follows the documented decision table.

func acceptsToken(accept, coding string) bool {
	for _, t := range strings.Split(accept, ",") {
		t = strings.TrimSpace(t)
		if i := strings.IndexByte(t, ';'); i >= 0 {
			t = strings.TrimSpace(t[:i])
		}
		if strings.EqualFold(t, coding) {
			return true
		}
	}
	return false
}

// c13Expected the reference table; second result lists alternatives when the statement leaves it open
func c13Expected(accept string, hasBr, hasGzip bool, tooSmall []bool, typeMatch bool) map[string]bool {
	out := map[string]bool{}
	aBr, aGz := acceptsToken(accept, "br"), acceptsToken(accept, "gzip")
	for _, small := range tooSmall {
		switch {
		case aBr && hasBr:
			out["br"] = true
		case aGz && hasGzip:
			out["gzip"] = true
		case small || !typeMatch:
			out[""] = true
		case aBr:
			out["br"] = true
		case aGz:
			out["gzip"] = true
		default:
			out[""] = true
		}
	}
	return out
}

var c13Accepts = []string{"", "gzip", "br", "gzip, br", "br, gzip", "deflate", "identity", "zstd", "gzip, deflate, br", "pack200-gzip", "compress, pack200-gzip", "GZIP", "br;q=0.9, gzip;q=0.8", "gzip;q=1.0, identity;q=0.5"}

func c13FillOnce(resp *cache.HTTPResponse, accept string) (ce string, body []byte, hdr http.Header, err error) {
	req := httptest.NewRequest("GET", "/", nil)
	if accept != "" {
		req.Header.Set("Accept-Encoding", accept)
	}
	c := elton.NewContext(httptest.NewRecorder(), req)
	err = resp.Fill(c)
	if err != nil {
		return
	}
	if c.BodyBuffer != nil {
		body = c.BodyBuffer.Bytes()
	}
	return c.GetHeader("Content-Encoding"), body, c.Header(), nil
}

func decodeCE(ce string, b []byte) ([]byte, error) {
	switch ce {
	case "":
		return b, nil
	case "gzip":
		return hx.GunzipBytes(b)
	case "br":
		return hx.UnbrotliBytes(b)
	}
	return nil, fmt.Errorf("unknown coding %q", ce)
}

func c13Table(r *hx.Run, rnd *rand.Rand, bodiesPerCell int) {
	mins := []int{1024, 100}
	filters := []struct {
		name string
		re   *regexp.Regexp
	}{{"default", nil}, {"custom", regexp.MustCompile(`text|vnd\.custom`)}}
	types := []string{"text/html; charset=utf-8", "application/json", "image/png", "application/vnd.custom", "application/octet-stream", ""}
	defaultFilter := regexp.MustCompile(`text|javascript|json|wasm|xml|font`)
	cells := 0
	for _, min := range mins {
		for _, sizeOff := range []int{-1, 0, 1, 4000} {
			size := min + sizeOff
			for _, fl := range filters {
				for _, ct := range types {
					for stored := 1; stored < 8; stored++ { // bit0 raw, bit1 gzip, bit2 br
						for _, cacheable := range []bool{false, true} {
							for _, accept := range c13Accepts {
								cells++
								for b := 0; b < bodiesPerCell; b++ {
									kind := []string{"text", "rand", "runs"}[rnd.Intn(3)]
									raw := hx.PRNGBytes(rnd.Int63(), size, kind)
									resp := &cache.HTTPResponse{StatusCode: 200, Header: http.Header{}, CompressMinLength: min, CompressContentTypeFilter: fl.re}
									if ct != "" {
										resp.Header.Set("Content-Type", ct)
									}
									if stored&1 != 0 {
										resp.RawBody = raw
									}
									if stored&2 != 0 {
										resp.GzipBody = hx.GzipBytes(raw, 6)
									}
									if stored&4 != 0 {
										resp.BrBody = hx.BrotliBytes(raw, 5)
									}
									re := fl.re
									if re == nil {
										re = defaultFilter
									}
									typeMatch := re.MatchString(ct)
									cs := map[string]interface{}{"min": min, "raw_len": size, "filter": fl.name, "content_type": ct, "stored_bits(raw,gzip,br)": stored, "cacheable": cacheable, "accept": accept, "body_kind": kind}
									if cacheable {
										// what the cache middleware does with a storable response
										hc := cache.NewHTTPCache()
										hc.Get()
										hc.Cacheable(resp, 60)
									}
									hasGzip, hasBr := len(resp.GzipBody) != 0, len(resp.BrBody) != 0
									smallRaw := size <= min
									smallVisible := len(resp.RawBody) <= min && len(resp.GzipBody) <= min && len(resp.BrBody) <= min
									alts := []bool{smallRaw}
									if smallVisible != smallRaw {
										alts = append(alts, smallVisible)
										r.Add("cells_where_raw_and_visible_lengths_straddle_the_threshold", 1)
									}
									want := c13Expected(accept, hasBr, hasGzip, alts, typeMatch)
									gz0, br0 := compress.VerifCounts()
									ce, body, _, err := c13FillOnce(resp, accept)
									gz1, br1 := compress.VerifCounts()
									r.Eval(1)
									if err != nil {
										r.Violate("fill_error", nil, "Fill failed: "+err.Error(), nil, cs)
										continue
									}
									if !want[ce] {
										params := map[string]string{"accept_class": "plain"}
										if strings.Contains(accept, "pack200") {
											params["accept_class"] = "token_containing_gzip"
										}
										r.Violate("negotiation_differs_from_table", params, fmt.Sprintf("Content-Encoding %q, table says %v", ce, keysOf(want)), nil, cs)
										continue
									}
									dec, derr := decodeCE(ce, body)
									if derr != nil || !bytes.Equal(dec, raw) {
										r.Violate("negotiated_body_wrong", nil, fmt.Sprintf("body sent with Content-Encoding %q does not decode to the original (%v)", ce, derr), nil, cs)
										continue
									}
									if (ce == "br" && hasBr && !bytes.Equal(body, resp.BrBody)) || (ce == "gzip" && hasGzip && !bytes.Equal(body, resp.GzipBody)) {
										r.Violate("stored_variant_not_used", nil, "a stored variant exists but other bytes were sent", nil, cs)
										continue
									}
									if (ce == "br" && hasBr || ce == "gzip" && hasGzip) && (gz1 != gz0 || br1 != br0) {
										r.Violate("recompressed_per_request", nil, "the compressor ran although the stored variant was served", nil, cs)
										continue
									}
									if b == 0 {
										r.Distinct(fmt.Sprintf("%d|%d|%s|%s|%d|%v|%s", min, sizeOff, fl.name, ct, stored, cacheable, accept))
									}
									if cells%9000 == 1 && b == 0 {
										cs["content_encoding_sent"] = ce
										r.Sample(cs)
									}
								}
							}
						}
					}
				}
			}
		}
	}
	r.Set("table_cells", cells)
	r.Set("exhaustive", true)
	r.Set("exhaustive_scope", "accept (14 values) x stored subset (7) x size {min-1,min,min+1,min+4000} x min {1024,100} x filter {default,custom} x 6 content types x cacheable {no,yes}")
}

func keysOf(m map[string]bool) []string {
	var out []string
	for k := range m {
		if k == "" {
			k = "identity"
		}
		out = append(out, k)
	}
	return out
}

// c13EndToEnd through a running server: thresholds, stored-once, best-compression profile
func c13EndToEnd(r *hx.Run, rnd *rand.Rand, n int) {
	type srvSpec struct {
		min    string
		minLen int
		filter string
		store  bool // tiny LRU over a store: entries are evicted and reloaded from their persisted record
		// fromMin/fromFilter (reloaded == true): the server was started with these settings and then
		// reconfigured in place to min/filter by a reload
		reloaded   bool
		fromMin    string
		fromFilter string
	}
	type keyInfo struct {
		uri       string
		size      int
		ct, kind  string
		upEnc     string // the upstream itself answers gzip or br encoded
		ttl       int
		cacheable bool
		rawOrig   []byte
		fetch     int64
	}
	specs := []srvSpec{{min: "", minLen: 1024}, {min: "100", minLen: 100}, {min: "2kb", minLen: 2000, filter: "text|vnd\\.custom"}, {min: "2kb", minLen: 2000, filter: "text|vnd\\.custom", store: true}, {min: "", minLen: 1024, store: true},
		{min: "", minLen: 1024, reloaded: true, fromMin: "2kb", fromFilter: "text|vnd\\.custom"}, {min: "100", minLen: 100, filter: "json", reloaded: true}}
	for si, sp := range specs {
		sc := hx.SimpleCfg{CacheName: fmt.Sprintf("c13_%d", si), MinLength: sp.min, Filter: sp.filter}
		if sp.store {
			sc.CacheSize = 8
			sc.Store = fmt.Sprintf("mem://c13/%d/%d", r.Seed, si)
			hx.NewMemStore(sc.Store)
		}
		if sp.reloaded {
			sc.MinLength, sc.Filter = sp.fromMin, sp.fromFilter
		}
		w := newSimpleWorld(r, sc, 1, true)
		if sp.reloaded {
			// the running server gets its final threshold and filter through a reload
			w.Cl.Get(w.Addr, "c13.example", fmt.Sprintf("/c13/%d/warm", si))
			w.Cfg.Servers[0].CompressMinLength, w.Cfg.Servers[0].CompressContentTypeFilter = sp.min, sp.filter
			w.apply(r)
			r.Add("e2e_servers_reconfigured_by_reload", 1)
		}
		var keys []*keyInfo
		fetchAccept := map[int64]string{} // fetch id -> Accept-Encoding of the request that fetched it
		hitCE := map[string]string{}      // stored version + Accept-Encoding -> Content-Encoding of its hits
		var size int
		var ct, kind, upEnc string
		var cacheable bool
		ttl := 600 // the clock stands still, so any positive lifetime keeps the entry fresh
		w.Pts = hx.InstallPoints(r.Seed)
		var script func(f *hx.Fetch) *hx.Reply
		script = func(f *hx.Fetch) *hx.Reply {
			h := [][2]string{{"Content-Type", ct}}
			if cacheable {
				h = append(h, [2]string{"Cache-Control", "max-age=" + strconv.Itoa(ttl)})
			} else {
				h = append(h, [2]string{"Cache-Control", "no-cache"})
			}
			raw := hx.PRNGBytes(f.ID, size, kind)
			switch upEnc {
			case "gzip":
				return &hx.Reply{Status: 200, Header: h, Body: hx.GzipBytes(raw, 6), Orig: raw, Encoding: "gzip"}
			case "br":
				return &hx.Reply{Status: 200, Header: h, Body: hx.BrotliBytes(raw, 5), Orig: raw, Encoding: "br"}
			}
			return &hx.Reply{Status: 200, Header: h, Body: raw}
		}
		w.Farm.SetScript(script)
		filter := regexp.MustCompile(`text|javascript|json|wasm|xml|font`)
		if sp.filter != "" {
			filter = regexp.MustCompile(sp.filter)
		}
		best := compress.Get("bestCompression")
		for i := 0; i < n && !r.TooMany(); i++ {
			size = sp.minLen + []int{-1, 0, 1, 500, 5000}[rnd.Intn(5)]
			// (also values with parameters, sloppy parameter syntax and other letter case: the filter is a
			// regular expression over the header value as it was sent)
			ct = []string{"text/html", "application/json", "image/png", "application/vnd.custom", "text/html; charset=utf-8", "text/css;;charset=utf-8", "text/html; charset", "application/javascript; charset=utf 8", "TEXT/HTML", "text/plain, text/html"}[rnd.Intn(10)]
			kind = []string{"text", "runs", "rand"}[rnd.Intn(3)]
			cacheable = rnd.Intn(3) != 0
			upEnc = []string{"", "", "", "gzip", "br"}[rnd.Intn(5)]
			ttl = []int{600, 600, 1, 2, 3, 86400}[rnd.Intn(6)]
			uri := fmt.Sprintf("/c13/%d/%d", si, i)
			typeMatch := filter.MatchString(ct)
			ki := &keyInfo{uri: uri, size: size, ct: ct, kind: kind, cacheable: cacheable, upEnc: upEnc, ttl: ttl}
			if upEnc != "" {
				r.Add("e2e_keys_whose_upstream_answers_encoded", 1)
			}
			keys = append(keys, ki)
			if cacheable && size > sp.minLen && typeMatch && i%3 == 0 {
				// a burst on the cold key: the response is compressed once when stored, not per coalesced request
				gate := make(chan struct{})
				bursturi := uri + "/burst"
				var held atomic.Int64
				w.Farm.SetScript(func(f *hx.Fetch) *hx.Reply {
					held.Add(1)
					return &hx.Reply{Status: 200, Header: [][2]string{{"Content-Type", ct}, {"Cache-Control", "max-age=600"}}, Body: hx.PRNGBytes(f.ID, size, kind), Gate: gate}
				})
				baseReg := w.Pts.Count("get.registered")
				gz0, br0 := compress.VerifCounts()
				done := make(chan []*hx.Result, 1)
				go func() {
					done <- burst(w, 5, hx.Req{Addr: w.Addr, Host: "c13.example", URI: bursturi, Header: http.Header{"Accept-Encoding": []string{"gzip"}}})
				}()
				hx.WaitUntil(10*time.Second, func() bool { return w.Pts.Count("get.registered")-baseReg >= 4 })
				close(gate)
				results := <-done
				gz1, br1 := compress.VerifCounts()
				w.Farm.SetScript(script)
				r.Add("e2e_cold_bursts_on_compressible_keys", 1)
				okAll := true
				for _, x := range results {
					if x.Err != nil || x.Status != 200 || x.CE != "gzip" {
						okAll = false
					}
				}
				if !okAll {
					r.Violate("negotiation_differs_from_table", map[string]string{"accept_class": "burst"}, "a coalesced request accepting gzip on a compressible cacheable key was not sent gzip", briefs(results), map[string]interface{}{"raw_len": size, "content_type": ct})
				} else if gz1-gz0 != 1 || br1-br0 != 1 {
					r.Violate("recompressed_per_request", map[string]string{"path": "coalesced_waiters"}, fmt.Sprintf("a burst of 5 on a cold compressible key ran the compressors gzip x%d, br x%d (expected once each, when stored)", gz1-gz0, br1-br0), briefs(results), map[string]interface{}{"raw_len": size, "content_type": ct, "held_fetches": held.Load()})
				}
			}
			var forceAccept *string
			probe := func(ki *keyInfo, step int, phase string) bool {
				// the origin answers a (re)fetch of this key with the key's own parameters
				size, ct, kind, cacheable, upEnc, ttl = ki.size, ki.ct, ki.kind, ki.cacheable, ki.upEnc, ki.ttl
				uri, typeMatch := ki.uri, filter.MatchString(ki.ct)
				accept := c13Accepts[rnd.Intn(len(c13Accepts))]
				if forceAccept != nil {
					accept = *forceAccept
				}
				gz0, br0 := compress.VerifCounts()
				hdr := http.Header{}
				if accept != "" {
					hdr.Set("Accept-Encoding", accept)
				}
				res := w.Cl.Do(hx.Req{Addr: w.Addr, Host: "c13.example", URI: uri, Header: hdr})
				gz1, br1 := compress.VerifCounts()
				cs := map[string]interface{}{"server_min_length": sp.min, "filter": sp.filter, "raw_len": size, "content_type": ct, "cacheable": cacheable, "step": step, "accept": accept, "label": res.Label, "phase": phase, "store_backed_tiny_cache": sp.store}
				r.Eval(1)
				r.Add("e2e_requests", 1)
				if res.Err != nil || res.Status != 200 || res.DecErr != nil {
					r.Violate("e2e_request_failed", nil, "request failed", res.Brief(), cs)
					return false
				}
				f := w.Farm.ByID(res.FetchID)
				if f == nil {
					r.Violate("e2e_unknown_fetch", nil, "no fetch id", res.Brief(), cs)
					return false
				}
				orig := f.Reply.Body
				if f.Reply.Orig != nil {
					orig = f.Reply.Orig
				}
				if ki.rawOrig == nil || f.ID != ki.fetch {
					ki.rawOrig, ki.fetch = orig, f.ID
				}
				if !bytes.Equal(res.Decoded, orig) {
					r.Violate("negotiated_body_wrong", nil, "decoded body differs from the upstream body", res.Brief(), cs)
					return false
				}
				// the size pike can see: the raw body, or - when the upstream itself answered encoded - only
				// the encoded bytes. Where the two fall on different sides of the threshold both readings of
				// "body size against the minimum compress length" are accepted.
				// which request fetched this response: a fetching request without any Accept-Encoding header
				// makes Go's transport ask for gzip on its own and undo it, so pike receives identity
				if _, seen := fetchAccept[res.FetchID]; !seen {
					fetchAccept[res.FetchID] = accept
				}
				effEnc := ki.upEnc
				if effEnc == "gzip" && fetchAccept[res.FetchID] == "" {
					effEnc = ""
				}
				visible := size
				if effEnc != "" {
					visible = len(f.Reply.Body)
				}
				want := map[string]bool{}
				for _, small := range []bool{size <= sp.minLen, visible <= sp.minLen} {
					stored := cacheable && !small && typeMatch // compressed when stored, raw dropped
					// a variant the upstream delivered is kept as it is, whatever the size and type
					for k := range c13Expected(accept, stored || effEnc == "br", stored || effEnc == "gzip", []bool{small}, typeMatch) {
						want[k] = true
					}
				}
				compressible := size > sp.minLen && visible > sp.minLen && typeMatch
				storedVariants := cacheable && compressible
				if cacheable && typeMatch && size > sp.minLen && res.Label == "hit" {
					// only compressed variants are visible: they may all be <= min although the raw body is not
					gzLen := len(hx.GzipBytes(orig, 9))
					if gzLen <= sp.minLen {
						for k := range c13Expected(accept, true, true, []bool{true}, typeMatch) {
							want[k] = true
						}
					}
				}
				if res.Label == "hit" {
					// the decision is a function of the request and the stored entry: the same Accept-Encoding
					// on the same stored version is answered the same way every time
					ck := fmt.Sprintf("%d|%s", res.FetchID, accept)
					if prev, seen := hitCE[ck]; seen && prev != res.CE {
						r.Violate("negotiation_depends_on_history", nil, fmt.Sprintf("hits on the same stored response with Accept-Encoding %q were answered %q earlier and %q now", accept, prev, res.CE), res.Brief(), cs)
						return false
					}
					hitCE[ck] = res.CE
				}
				if !want[res.CE] {
					params := map[string]string{"accept_class": "plain"}
					if strings.Contains(accept, "pack200") {
						params["accept_class"] = "token_containing_gzip"
					}
					r.Violate("negotiation_differs_from_table", params, fmt.Sprintf("server sent Content-Encoding %q, table says %v", res.CE, keysOf(want)), res.Brief(), cs)
					return false
				}
				if res.Label == "hit" && storedVariants {
					r.Add("e2e_hits_on_compressible_entries", 1)
					if (res.CE == "gzip" || res.CE == "br") && (gz1 != gz0 || br1 != br0) {
						r.Violate("recompressed_per_request", nil, fmt.Sprintf("hit on a stored compressible entry invoked the compressor (gzip +%d, br +%d)", gz1-gz0, br1-br0), res.Brief(), cs)
						return false
					}
					if res.CE == "gzip" && effEnc != "gzip" {
						exp, _ := best.Gzip(ki.rawOrig)
						gzN, brN := compress.VerifCounts()
						_, _ = gzN, brN
						if !bytes.Equal(res.Raw, exp) {
							r.Violate("stored_variant_not_best_compression", nil, "the stored gzip variant differs from the best-compression profile's output", res.Brief(), cs)
							return false
						}
						r.Add("e2e_best_compression_profile_checks", 1)
					}
					if res.CE == "br" && effEnc != "br" {
						exp, _ := best.Brotli(ki.rawOrig)
						if !bytes.Equal(res.Raw, exp) {
							r.Violate("stored_variant_not_best_compression", nil, "the stored br variant differs from the best-compression profile's output", res.Brief(), cs)
							return false
						}
						r.Add("e2e_best_compression_profile_checks", 1)
					}
				}
				if phase == "first" && step == 0 && cacheable && compressible {
					if gz1-gz0 != 1 || br1-br0 != 1 {
						// fetching request: exactly one gzip and one br when stored (the fetcher is then served a stored variant)
						r.Add("e2e_store_time_compressions_not_1_1", 1)
					}
				}
				return true
			}
			for step := 0; step < 4; step++ {
				if !probe(ki, step, "first") {
					break
				}
			}
			if ki.upEnc != "" && cacheable {
				// the same codings asked again after clients that were served other ones
				for k, a := range []string{"br", "", "br", "gzip", "deflate", "gzip", "br"} {
					a := a
					forceAccept = &a
					ok := probe(ki, 4+k, "repeated_codings")
					forceAccept = nil
					if !ok {
						break
					}
				}
			}
			if cacheable {
				// the table has no column for the protocol version: an HTTP/1.0 client (what a front proxy
				// speaks to its backends by default) asking for a coding gets what an HTTP/1.1 client got
				for _, a := range []string{"gzip", "br"} {
					raw := fmt.Sprintf("GET %s HTTP/1.0\r\nHost: c13.example\r\nAccept-Encoding: %s\r\n\r\n", ki.uri, a)
					rr := hx.RawRequest(w.Addr, []byte(raw), "GET", false, 10*time.Second)
					if rr.Err != nil || rr.Status != 200 || rr.Header.Get("X-Status") != "hit" {
						continue
					}
					r.Add("e2e_http10_hits", 1)
					ck := rr.Header.Get("X-Fetch") + "|" + a
					if prev, seen := hitCE[ck]; seen && prev != rr.Header.Get("Content-Encoding") {
						r.Violate("negotiation_depends_on_history", map[string]string{"aspect": "protocol_version"}, fmt.Sprintf("a hit on the same stored response with Accept-Encoding %q is answered %q over HTTP/1.1 and %q over HTTP/1.0", a, prev, rr.Header.Get("Content-Encoding")), nil, map[string]interface{}{"uri": ki.uri, "raw_len": ki.size, "content_type": ki.ct})
						break
					}
				}
			}
			if sp.store && i%4 == 3 {
				// revisit earlier keys: with 8 resident entries they come back from their persisted records
				for n := 0; n < 6; n++ {
					old := keys[rnd.Intn(len(keys))]
					if st, ok := entryState(w.Cfg.Caches[0].Name, "GET c13.example "+old.uri); ok && !st.Exists {
						r.Add("e2e_revisits_of_evicted_keys", 1)
					}
					if !probe(old, 1, "revisit") {
						break
					}
				}
				size, ct, kind, cacheable, upEnc, ttl = ki.size, ki.ct, ki.kind, ki.cacheable, ki.upEnc, ki.ttl
			}
			r.Distinct(fmt.Sprintf("e2e %d %d %s %v", si, size, ct, cacheable))
		}
		w.Farm.Close()
	}
}

func c13(r *hx.Run) {
	r.Rule = "exhaustive table at the Fill level: accept (14 values incl. tokens containing 'gzip') x stored subset of raw/gzip/br (7) x raw size {min-1,min,min+1,min+4000} x min {1024,100} x filter {default,custom} x 6 content types x {direct, after Cacheable()}, N random bodies per cell, against the table of the statement/docs (where raw and visible lengths straddle the threshold both outcomes are accepted); then end-to-end through servers with default/configured thresholds and filters, Content-Type values with parameters, sloppy parameter syntax and upper case (two of them with an LRU of 8 entries over a store, earlier keys revisited after eviction so that they are served from their reloaded records; two that received their threshold and filter - set, changed or removed - through a reload of the running server; upstreams that answer gzip or br encoded themselves; lifetimes from 1 s to a day; hits on one stored version with one Accept-Encoding must always get the same encoding, over HTTP/1.1 and over HTTP/1.0): text, repetitive and incompressible bodies, 4 requests per key with random Accept-Encoding, compressor call counters around every hit, stored variants compared with the best-compression profile's output. Non-trivial/distinct = table cell / e2e key class."
	r.Assume = []string{"Accept-Encoding is a plain list of codings (no q-values)", "gzip/brotli encoders are deterministic (same level => same bytes)"}
	rnd := rand.New(rand.NewSource(r.Seed))
	c13Table(r, rnd, r.Pick(1, 20))
	c13EndToEnd(r, rnd, r.Pick(150, 10000))
}

func init() { register("C13", "exploration", c13) }
