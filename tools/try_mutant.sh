#!/bin/bash
# tools/try_mutant.sh <patch.diff> <ID> [<ID>...]  — developer tool: apply a seeded change to /repo,
# run the quick checks named, undo the change. Prints one line per check: CAUGHT / MISSED / other.
PATCH="$1"; shift
cd /repo || exit 3
if [ -n "$(git status --porcelain --untracked-files=no)" ]; then echo "/repo is dirty"; exit 3; fi
if ! git apply --3way "$PATCH" 2>/tmp/apply.err; then
  if ! git apply "$PATCH" 2>>/tmp/apply.err; then echo "PATCH DOES NOT APPLY: $(head -3 /tmp/apply.err)"; git reset -q --hard HEAD; exit 4; fi
fi
git reset -q
for ID in "$@"; do
  out=$(cd /verif && VERIF_SEED=${VERIF_SEED:-1} ./check "$ID" ${TIER:-quick} 2>&1); rc=$?
  v=$(echo "$out" | grep -c '^VIOLATION')
  case $rc in
    1) echo "$ID: CAUGHT ($v violation lines): $(echo "$out" | grep 'violation kind' | head -2 | cut -c1-260)";;
    0) echo "$ID: MISSED";;
    *) echo "$ID: rc=$rc $(echo "$out" | tail -3 | cut -c1-300)";;
  esac
done
cd /repo && git reset -q --hard HEAD
git status --porcelain | head -3
