// Package hx is the shared runtime-monitoring harness: virtual clock, hook point
// manager, scriptable origin, recording client, in-process pike world, verdicts and evidence.
package hx

import (
	"bytes"
	"fmt"
	"math/rand"
	"net"
	"os"
	"runtime"
	"strconv"
	"sync"
	"sync/atomic"
	"syscall"
	"time"

	"github.com/vicanso/pike/cache"
)

// ---------------------------------------------------------------------------------------
// global sequence numbers: the only ordering the oracles use

var seqCounter atomic.Int64

// Seq next global sequence number
func Seq() int64 { return seqCounter.Add(1) }

var monoStart = time.Now()

// Mono monotonic nanoseconds since process start
func Mono() int64 { return int64(time.Since(monoStart)) }

// ---------------------------------------------------------------------------------------
// virtual clock

// Clock a virtual clock in whole seconds
type Clock struct {
	v atomic.Int64
	// TickPerRead: hostile mode, every reading of the clock (by pike or by the harness) advances it by one second
	TickPerRead atomic.Bool
}

// InstallClock installs a virtual clock into pike's cache package
func InstallClock(start int64) *Clock {
	c := &Clock{}
	c.v.Store(start)
	cache.VerifSetClock(c.Now)
	return c
}

// UninstallClock back to the real clock
func UninstallClock() { cache.VerifSetClock(nil) }

func (c *Clock) Now() int64 {
	if c.TickPerRead.Load() {
		return c.v.Add(1)
	}
	return c.v.Load()
}
func (c *Clock) Set(v int64)           { c.v.Store(v) }
func (c *Clock) Advance(d int64) int64 { return c.v.Add(d) }

// ---------------------------------------------------------------------------------------
// goroutine id

// GID current goroutine id (parsed from the stack header)
func GID() int64 {
	var buf [64]byte
	n := runtime.Stack(buf[:], false)
	// "goroutine 123 ["
	b := buf[:n]
	b = bytes.TrimPrefix(b, []byte("goroutine "))
	i := bytes.IndexByte(b, ' ')
	if i < 0 {
		return -1
	}
	id, _ := strconv.ParseInt(string(b[:i]), 10, 64)
	return id
}

// ---------------------------------------------------------------------------------------
// hook points

// Hold one armed hold of a goroutine at a hook point
type Hold struct {
	Name    string
	Arrived chan struct{}
	release chan struct{}
	once    sync.Once
	GID     int64
}

// Release lets the held goroutine continue (idempotent; also disarms if nobody arrived)
func (h *Hold) Release() { h.once.Do(func() { close(h.release) }) }

// WaitArrived waits until a goroutine is held; false on watchdog timeout
func (h *Hold) WaitArrived(d time.Duration) bool {
	select {
	case <-h.Arrived:
		return true
	case <-time.After(d):
		return false
	}
}

// PointEvent one recorded hook point passage
type PointEvent struct {
	Seq  int64
	GID  int64
	Name string
}

// Points hook point manager
type Points struct {
	mu     sync.Mutex
	counts sync.Map // name -> *atomic.Int64
	holds  map[string][]*Hold
	armed  atomic.Int64
	custom atomic.Value // map[string]func()
	jitter atomic.Value // *jitterCfg
	record atomic.Bool
	events []PointEvent
	evMu   sync.Mutex
	jrnd   *rand.Rand
	jrndMu sync.Mutex
}

type jitterCfg struct {
	names  map[string]bool
	maxUS  int
	yieldP int
}

// InstallPoints installs a hook point manager into pike
func InstallPoints(seed int64) *Points {
	p := &Points{holds: map[string][]*Hold{}, jrnd: rand.New(rand.NewSource(seed))}
	cache.VerifSetPointFunc(p.hit)
	return p
}

// UninstallPoints removes the callback (hooks become no-ops without any synchronisation)
func UninstallPoints() { cache.VerifSetPointFunc(nil) }

func (p *Points) counter(name string) *atomic.Int64 {
	if v, ok := p.counts.Load(name); ok {
		return v.(*atomic.Int64)
	}
	v, _ := p.counts.LoadOrStore(name, &atomic.Int64{})
	return v.(*atomic.Int64)
}

// Count how often a point was reached
func (p *Points) Count(name string) int64 { return p.counter(name).Load() }

// Counts snapshot of all counters
func (p *Points) Counts() map[string]int64 {
	m := map[string]int64{}
	p.counts.Range(func(k, v interface{}) bool {
		m[k.(string)] = v.(*atomic.Int64).Load()
		return true
	})
	return m
}

// HoldNext arms a hold: the next goroutine reaching name blocks until Release
func (p *Points) HoldNext(name string) *Hold {
	h := &Hold{Name: name, Arrived: make(chan struct{}), release: make(chan struct{})}
	p.mu.Lock()
	p.holds[name] = append(p.holds[name], h)
	p.mu.Unlock()
	p.armed.Add(1)
	return h
}

// Disarm removes a hold that nobody reached (no-op if it was taken)
func (p *Points) Disarm(h *Hold) {
	p.mu.Lock()
	list := p.holds[h.Name]
	for i, x := range list {
		if x == h {
			p.holds[h.Name] = append(list[:i:i], list[i+1:]...)
			p.armed.Add(-1)
			break
		}
	}
	p.mu.Unlock()
	h.Release()
}

// SetCustom installs per-point callbacks (replace the whole map; nil clears)
func (p *Points) SetCustom(m map[string]func()) { p.custom.Store(m) }

// SetJitter random delay (0..maxUS microseconds, or a yield) at the named points
func (p *Points) SetJitter(names []string, maxUS int) {
	if len(names) == 0 {
		p.jitter.Store((*jitterCfg)(nil))
		return
	}
	j := &jitterCfg{names: map[string]bool{}, maxUS: maxUS}
	for _, n := range names {
		j.names[n] = true
	}
	p.jitter.Store(j)
}

// Record switches event recording on/off
func (p *Points) Record(on bool) { p.record.Store(on) }

// TakeEvents returns and clears the recorded events
func (p *Points) TakeEvents() []PointEvent {
	p.evMu.Lock()
	ev := p.events
	p.events = nil
	p.evMu.Unlock()
	return ev
}

func (p *Points) hit(name string) {
	p.counter(name).Add(1)
	if p.record.Load() {
		e := PointEvent{Seq: Seq(), GID: GID(), Name: name}
		p.evMu.Lock()
		p.events = append(p.events, e)
		p.evMu.Unlock()
	}
	if p.armed.Load() > 0 {
		var h *Hold
		p.mu.Lock()
		if list := p.holds[name]; len(list) > 0 {
			h = list[0]
			p.holds[name] = list[1:]
			p.armed.Add(-1)
		}
		p.mu.Unlock()
		if h != nil {
			h.GID = GID()
			close(h.Arrived)
			<-h.release
		}
	}
	if m, _ := p.custom.Load().(map[string]func()); m != nil {
		if fn := m[name]; fn != nil {
			fn()
		}
	}
	if j, _ := p.jitter.Load().(*jitterCfg); j != nil && j.names[name] {
		p.jrndMu.Lock()
		v := p.jrnd.Intn(j.maxUS + 1)
		p.jrndMu.Unlock()
		if v%3 == 0 {
			runtime.Gosched()
		} else {
			time.Sleep(time.Duration(v) * time.Microsecond)
		}
	}
}

// ---------------------------------------------------------------------------------------
// misc helpers

// WaitUntil polls cond; false when the (generous, wall clock) watchdog fires
func WaitUntil(d time.Duration, cond func() bool) bool {
	deadline := time.Now().Add(d)
	for i := 0; ; i++ {
		if cond() {
			return true
		}
		if time.Now().After(deadline) {
			return false
		}
		if i < 50 {
			runtime.Gosched()
			time.Sleep(20 * time.Microsecond)
		} else {
			time.Sleep(500 * time.Microsecond)
		}
	}
}

var portMu sync.Mutex
var nextPort int

// FreePorts n distinct free loopback ports. They are taken from 20000..32000, below the kernel's
// ephemeral range, through a process-wide cursor: a port handed out here is never handed out twice
// and cannot be grabbed by a concurrent listener on port 0 (origins) or an outgoing connection.
func FreePorts(n int) []int {
	portMu.Lock()
	defer portMu.Unlock()
	if nextPort == 0 {
		nextPort = 20000 + (os.Getpid()*37)%9000
	}
	ports := make([]int, 0, n)
	for tries := 0; len(ports) < n && tries < 20000; tries++ {
		p := nextPort
		nextPort++
		if nextPort >= 32000 {
			nextPort = 20000
		}
		ln, err := net.Listen("tcp", "127.0.0.1:"+strconv.Itoa(p))
		if err != nil {
			continue
		}
		ln.Close()
		ports = append(ports, p)
	}
	if len(ports) < n {
		panic("no free ports")
	}
	return ports
}

// ReservePort binds (without listening) a loopback port so that no other socket on the machine is given it:
// connections to it are refused exactly as if nothing were there. reuse: set SO_REUSEADDR - needed for a port that
// has just been served on (connections in TIME_WAIT); the kernel then still keeps listeners on port 0 and
// outgoing connections off the port. Without reuse an explicit Listen on the port by anybody fails as well.
// Returns the descriptor (close it to release the port).
func ReservePort(port int, reuse bool) (int, error) {
	fd, err := syscall.Socket(syscall.AF_INET, syscall.SOCK_STREAM|syscall.SOCK_CLOEXEC, 0)
	if err != nil {
		return -1, err
	}
	if reuse {
		syscall.SetsockoptInt(fd, syscall.SOL_SOCKET, syscall.SO_REUSEADDR, 1)
	}
	if err := syscall.Bind(fd, &syscall.SockaddrInet4{Port: port, Addr: [4]byte{127, 0, 0, 1}}); err != nil {
		syscall.Close(fd)
		return -1, err
	}
	return fd, nil
}

// DeadPort a loopback port on which nobody listens and nobody will for the life of this process
func DeadPort() int {
	for {
		p := FreePorts(1)[0]
		if _, err := ReservePort(p, false); err == nil {
			return p
		}
	}
}

// PRNGBytes reproducible payload of n bytes. kind: "rand" (incompressible), "text"
// (compressible words), "runs" (very compressible)
func PRNGBytes(seed int64, n int, kind string) []byte {
	r := rand.New(rand.NewSource(seed))
	b := make([]byte, n)
	switch kind {
	case "rand":
		r.Read(b)
	case "runs":
		c := byte('a' + r.Intn(26))
		for i := range b {
			if r.Intn(4096) == 0 {
				c = byte('a' + r.Intn(26))
			}
			b[i] = c
		}
	case "zero":
		// all zero bytes
	default:
		words := []string{"pike", "cache", "proxy", "varnish", "http", "header", "lorem", "ipsum", "dolor", "sit", "amet", "gzip", "brotli", "\n", " the ", "{\"k\":", "\"v\"},"}
		i := 0
		for i < n {
			w := words[r.Intn(len(words))]
			i += copy(b[i:], w)
			if i < n {
				b[i] = ' '
				i++
			}
		}
	}
	return b
}

// Sprintf shorthand
func Sprintf(f string, a ...interface{}) string { return fmt.Sprintf(f, a...) }
