package main

import (
	"fmt"
	"os"
)

var children = map[string]func(args []string){}

// childMain runs an isolated batch (re-exec of this binary): "vrun child <name> args..."
func childMain(args []string) {
	if len(args) == 0 {
		os.Exit(3)
	}
	fn, ok := children[args[0]]
	if !ok {
		fmt.Println("unknown child", args[0])
		os.Exit(3)
	}
	fn(args[1:])
}
