#!/bin/bash
# tools/confirm_mutant.sh <agent-out-dir>/<mN> <seeded-name> "<caught-by>"
# Developer tool. Confirms a seeded change in a scratch worktree of /repo's HEAD (outside /repo and /verif):
# applies, builds with and without the tag, runs the 65-test baseline, runs the demonstration with the
# change (must fail) and without it (must pass). On success stores it under /verif/seeded/<name>/.
SRC="$1"; NAME="$2"; CAUGHT="$3"
export GOFLAGS=-mod=mod GOPROXY=off GOSUMDB=off GOTOOLCHAIN=local
WT=$(mktemp -d /tmp/confirm-XXXXXX); rmdir "$WT"
git -C /repo worktree add -f "$WT" HEAD -q || exit 3
cleanup() { git -C /repo worktree remove --force "$WT" 2>/dev/null; rm -rf "$WT"; }
trap cleanup EXIT
cd "$WT" || exit 3
DEMO=$(ls "$SRC" | grep -v -e patch.diff -e meta.json | head -1)
DEMOCMD=$(python3 -c "import json;print(json.load(open('$SRC/meta.json')).get('demo_cmd',''))")
PKG=$(echo "$DEMOCMD" | grep -o '\./[a-z0-9_]*/ *$' | tr -d ' ' | tail -1)
[ -z "$PKG" ] && PKG=$(echo "$DEMOCMD" | grep -o '\./[a-z0-9_]*/' | tail -1)
RUN=$(echo "$DEMOCMD" | tr -d "'\"" | grep -o '\-run [A-Za-z0-9_|]*' | tail -1)
TAGS=""; echo "$DEMOCMD" | grep -q 'tags verif' && TAGS="-tags verif"
echo "$DEMOCMD" | grep -q -e ' -race' && TAGS="$TAGS -race"
res() { echo "$1" >> "$WT/.confirm.log"; echo "$1"; }
: > "$WT/.confirm.log"
# demo without the change
mkdir -p "$WT/$PKG"; cp "$SRC/$DEMO" "$WT/$PKG/zz_seeded_demo_test.go"
go test $TAGS -vet=off -count=1 $RUN $PKG > "$WT/.demo_clean.out" 2>&1; DC=$?
res "demo on clean tree: exit $DC (expected 0)"
git apply --3way "$SRC/patch.diff" 2>/dev/null || git apply "$SRC/patch.diff" || { res "patch does not apply"; exit 4; }
git reset -q
git diff > "$WT/.patch_rebased.diff"
go build ./... > "$WT/.build.out" 2>&1 && go build -tags verif ./... >> "$WT/.build.out" 2>&1; B=$?
res "build with change (both tags): exit $B (expected 0)"
go test $TAGS -vet=off -count=1 $RUN $PKG > "$WT/.demo_mut.out" 2>&1; DM=$?
res "demo with change: exit $DM (expected non-zero)"
rm -f "$WT/$PKG/zz_seeded_demo_test.go"
go test -json -vet=off -count=1 -timeout 25m ./... > "$WT/.suite.json" 2>/dev/null
S=$(python3 - "$WT/.suite.json" <<'PY'
import json,sys
base=json.load(open('/root/.vp/BASELINE.json'))['stable_pass']
res={}
for l in open(sys.argv[1]):
    try: e=json.loads(l)
    except Exception: continue
    if e.get('Test') and '/' not in e['Test'] and e.get('Action') in ('pass','fail','skip'):
        res[e['Package']+'::'+e['Test']]=e['Action']
bad=[t for t in base if res.get(t)!='pass']
print("%d/%d"%(len(base)-len(bad),len(base)), ' '.join(bad))
PY
)
res "existing suite with change: $S stable tests pass (expected 65/65)"
if [ $DC -eq 0 ] && [ $B -eq 0 ] && [ $DM -ne 0 ] && [ "${S%% *}" = "65/65" ]; then
  D=/verif/seeded/$NAME; mkdir -p "$D"
  cp "$WT/.patch_rebased.diff" "$D/patch.diff"; cp "$SRC/$DEMO" "$D/$DEMO"
  python3 - "$SRC/meta.json" "$D/meta.json" "$WT/.confirm.log" "$CAUGHT" "$(git -C /repo rev-parse --short HEAD)" "$DEMOCMD" <<'PY'
import json,sys
m=json.load(open(sys.argv[1]))
m['confirmed_by_me']={'at_repo_commit':sys.argv[5],'ran':open(sys.argv[3]).read().strip().split('\n'),'demo_cmd':sys.argv[6]}
m['caught_by']=sys.argv[4]
m['breaks_property']=m.get('property')
json.dump(m,open(sys.argv[2],'w'),indent=1)
PY
  echo "KEPT $NAME"
else
  echo "REJECTED $NAME"; tail -n 5 "$WT/.demo_mut.out" | cut -c1-300
fi
