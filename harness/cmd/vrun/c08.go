package main

import (
	"bytes"
	"fmt"
	"math/rand"
	"net/url"
	"path/filepath"
	"strconv"
	"sync"
	"sync/atomic"
	"syscall"
	"time"

	"github.com/vicanso/pike/config"
	"verifh/hx"
)

// C08: persisted entries survive eviction, restart and kill - never stale or corrupt.
// Real pike binary (race build, badger store, clock file); kill at named points / at random / SIGTERM.

type c08Case struct {
	ID    int    `json:"id"`
	Kind  string `json:"kind"` // selfkill | sigkill | sigterm
	Point string `json:"point,omitempty"`
	Nth   int    `json:"nth,omitempty"`
}

const c08T, c08P = 100, 20

type c08Env struct {
	r      *hx.Run
	c      c08Case
	farm   *hx.Farm
	cl     *hx.Client
	pike   *hx.Pike
	addr   string
	admin  string
	vnow   atomic.Int64
	slack  atomic.Int64
	mu     sync.Mutex
	purged map[string]map[int64]bool // uri -> fetch ids that existed when a purge completed
	infl   map[string]int            // client requests in flight per uri
	starts map[string]int            // client requests started per uri
	trace  []string
}

// the clock of a case is purely virtual: pike reads an absolute time from its clock file on every clock
// call and the harness, the origin and the client read the same value, so no verdict depends on how long
// anything took in real time. It only moves when the case says so.
func (e *c08Env) now() int64 { return e.vnow.Load() }

func (e *c08Env) setNow(v int64) {
	e.mu.Lock()
	busy := 0
	for _, n := range e.infl {
		busy += n
	}
	e.mu.Unlock()
	if busy > 0 {
		// never expected: a clock change while requests are in flight widens the creation bound
		if d := v - e.vnow.Load(); d > e.slack.Load() {
			e.slack.Store(d)
		}
		e.r.Add("clock_changes_with_requests_in_flight", 1)
	}
	e.pike.SetClockAbs(v)
	e.vnow.Store(v)
}

func (e *c08Env) log(f string, a ...interface{}) {
	e.mu.Lock()
	if len(e.trace) < 80 {
		e.trace = append(e.trace, fmt.Sprintf(f, a...))
	}
	e.mu.Unlock()
}

func c08Cacheable(uri string) bool { return len(uri) > 6 && uri[5] == 'c' } // /c08/c... vs /c08/u...

func (e *c08Env) script(f *hx.Fetch) *hx.Reply {
	h := [][2]string{{"Content-Type", "text/plain"}, {"X-Multi", "a"}, {"X-Multi", "b"}}
	if c08Cacheable(f.URI) {
		h = append(h, [2]string{"Cache-Control", "max-age=" + strconv.Itoa(c08T)})
	} else {
		h = append(h, [2]string{"Cache-Control", "no-store"})
	}
	return &hx.Reply{Status: 200, Header: h, Body: hx.IdentBody(f, 1500, "text")}
}

// judge one response against the origin's log
func (e *c08Env) judge(res *hx.Result, phase string) bool {
	r := e.r
	cs := map[string]interface{}{"case": e.c, "phase": phase, "uri": res.Req.URI, "trace": e.trace}
	r.Add("responses_judged", 1)
	if res.Err != nil || res.Status != 200 {
		r.Violate("request_failed_after_restart", map[string]string{"kind": e.c.Kind, "point": e.c.Point}, fmt.Sprintf("status %d err %v", res.Status, res.Err), res.Brief(), cs)
		return false
	}
	f := e.farm.ByID(res.FetchID)
	if f == nil || f.URI != res.Req.URI || f.Reply == nil {
		r.Violate("response_of_unknown_version", map[string]string{"kind": e.c.Kind, "point": e.c.Point}, "the response is no upstream response of this key", res.Brief(), cs)
		return false
	}
	if !bytes.Equal(res.Decoded, f.Reply.Body) || fmt.Sprint(res.Header["X-Multi"]) != "[a b]" || res.Header.Get("Content-Type") != "text/plain" {
		r.Violate("persisted_entry_altered", map[string]string{"kind": e.c.Kind, "point": e.c.Point}, "body or headers differ from the upstream response of that version", res.Brief(), cs)
		return false
	}
	own := len(e.farm.ByReqID(res.ReqID))
	switch res.Label {
	case "hit":
		r.Add("outcome_hit_from_store_or_memory", 1)
		if own != 0 {
			r.Violate("hit_with_upstream_contact", nil, "hit that contacted the upstream", res.Brief(), cs)
			return false
		}
		if !c08Cacheable(res.Req.URI) {
			r.Violate("uncacheable_served_as_hit", nil, "an uncacheable response is served as a hit", res.Brief(), cs)
			return false
		}
		createdHi := f.VEnd + e.slack.Load()
		if res.VCall-createdHi > c08T {
			r.Violate("served_after_original_expiry", map[string]string{"kind": e.c.Kind, "point": e.c.Point}, fmt.Sprintf("hit at %d of a version obtained at <= %d with T=%d", res.VCall, createdHi, c08T), res.Brief(), cs)
			return false
		}
		age := int64(res.Age)
		if age < 0 {
			age = 0
		}
		if age < res.VCall-createdHi || age > res.VRet-f.VStart {
			r.Violate("age_does_not_continue", map[string]string{"kind": e.c.Kind, "point": e.c.Point}, fmt.Sprintf("Age=%d, expected within [%d,%d] (continuing from the original fetch)", age, res.VCall-createdHi, res.VRet-f.VStart), res.Brief(), cs)
			return false
		}
		e.mu.Lock()
		wasPurged := e.purged[res.Req.URI][f.ID]
		e.mu.Unlock()
		if wasPurged {
			r.Violate("purged_version_served", map[string]string{"kind": e.c.Kind, "point": e.c.Point}, "a version purged (purge completed) earlier is served again", res.Brief(), cs)
			return false
		}
	case "fetching":
		r.Add("outcome_refetched", 1)
		if own != 1 {
			r.Violate("label_contacts", nil, fmt.Sprintf("fetching with %d own upstream contacts", own), res.Brief(), cs)
			return false
		}
	case "hitForPass":
		r.Add("outcome_hit_for_pass", 1)
		if own != 1 || c08Cacheable(res.Req.URI) {
			r.Violate("label_contacts", nil, fmt.Sprintf("hitForPass with %d own contacts on %s", own, res.Req.URI), res.Brief(), cs)
			return false
		}
		// some uncacheable fetch of this key must still be inside its period
		ok := false
		for _, g := range e.farm.Log() {
			if g.URI == res.Req.URI && g.ID != f.ID && res.VCall-(g.VEnd+1) <= c08P {
				ok = true
			}
		}
		if !ok {
			r.Violate("hit_for_pass_marker_outlived_period", map[string]string{"kind": e.c.Kind, "point": e.c.Point}, "hitForPass although every marker of this key is older than the period", res.Brief(), cs)
			return false
		}
	default:
		r.Violate("unexpected_label", nil, "label "+res.Label, res.Brief(), cs)
		return false
	}
	return true
}

func (e *c08Env) get(uri string) *hx.Result {
	e.mu.Lock()
	e.infl[uri]++
	e.starts[uri]++
	e.mu.Unlock()
	res := e.cl.Do(hx.Req{Addr: e.addr, Host: "c08.example", URI: uri, Timeout: 10 * time.Second})
	e.mu.Lock()
	e.infl[uri]--
	e.mu.Unlock()
	return res
}

func (e *c08Env) purge(uri string) bool {
	// versions that exist now are purged once the purge completes - provided no request on the key
	// overlaps the purge (which way a purge concurrent with a request or fetch is ordered is not judged)
	existing := map[int64]bool{}
	for _, f := range e.farm.Log() {
		if f.URI == uri {
			existing[f.ID] = true
		}
	}
	e.mu.Lock()
	quiet := e.infl[uri] == 0
	startsBefore := e.starts[uri]
	e.mu.Unlock()
	q := url.Values{}
	q.Set("key", "GET c08.example "+uri)
	res := e.cl.Do(hx.Req{Method: "DELETE", Addr: e.admin, URI: "/cache?" + q.Encode(), Timeout: 5 * time.Second})
	if res.Err == nil && res.Status == 204 {
		e.mu.Lock()
		if !quiet || e.starts[uri] != startsBefore {
			e.mu.Unlock()
			e.r.Add("purges_overlapping_a_request_(not_judged)", 1)
			return true
		}
		e.r.Add("purges_completed_at_key_quiescence", 1)
		if e.purged[uri] == nil {
			e.purged[uri] = map[int64]bool{}
		}
		for id := range existing {
			e.purged[uri][id] = true
		}
		e.mu.Unlock()
		return true
	}
	return false
}

func (e *c08Env) start(phase string) bool {
	d, err := e.pike.Start([]string{e.addr, e.admin}, 30*time.Second)
	e.r.Add("pike_starts", 1)
	e.r.Max("max_start_ms", d.Milliseconds())
	if err != nil {
		e.r.Violate("pike_does_not_start_after_stop", map[string]string{"kind": e.c.Kind, "point": e.c.Point}, "pike did not come up on the same store: "+err.Error(), map[string]interface{}{"phase": phase, "trace": e.trace}, e.c)
		return false
	}
	return true
}

func c08Run(r *hx.Run, bin string, c c08Case, rnd *rand.Rand) {
	dir := filepath.Join(r.Scratch, fmt.Sprintf("c08-%d", c.ID))
	ports := hx.FreePorts(2)
	e := &c08Env{r: r, c: c, purged: map[string]map[int64]bool{}, infl: map[string]int{}, starts: map[string]int{}}
	e.farm = hx.NewFarm(1, e.now)
	defer e.farm.Close()
	e.farm.SetScript(e.script)
	e.cl = hx.NewClient(e.now)
	e.addr, e.admin = srvAddr(ports[0]), srvAddr(ports[1])
	// every second case uses an LRU far smaller than the working set: entries are evicted and reloaded
	// from badger all the time, not only after a restart
	size := 1000
	if c.ID%2 == 1 {
		size = 32
		r.Add("cases_with_lru_smaller_than_working_set", 1)
	}
	cfg := &config.PikeConfig{
		Caches:    []config.CacheConfig{{Name: "c", Size: size, HitForPass: strconv.Itoa(c08P) + "s", Store: "badger://" + filepath.Join(dir, "badger")}},
		Upstreams: []config.UpstreamConfig{{Name: "u", Servers: []config.UpstreamServerConfig{{Addr: e.farm.Origins[0].URL()}}}},
		Locations: []config.LocationConfig{{Name: "l", Upstream: "u"}},
		Servers:   []config.ServerConfig{{Addr: e.addr, Locations: []string{"l"}, Cache: "c"}},
	}
	var err error
	e.pike, err = hx.NewPike(bin, dir, cfg, ports[1])
	if err != nil {
		r.Inconclusive("cannot prepare pike: " + err.Error())
		return
	}
	e.pike.Seed = r.Seed
	defer e.pike.Kill()
	e.setNow(1800000000 + int64(c.ID)*1000)
	// ---- incarnation 1: populate, then SIGKILL at quiescence
	if !e.start("populate") {
		return
	}
	var keysA []string
	for i := 0; i < 8; i++ {
		t := "c"
		if i%4 == 3 {
			t = "u"
		}
		keysA = append(keysA, fmt.Sprintf("/c08/%s/%d/a%d", t, c.ID, i))
	}
	for _, k := range keysA {
		for j := 0; j < 2; j++ {
			if !e.judge(e.get(k), "populate") {
				return
			}
		}
	}
	// many distinct cold keys stored at the same instant: their records are written to the store concurrently
	var keysC []string
	for i := 0; i < 48; i++ {
		keysC = append(keysC, fmt.Sprintf("/c08/c/%d/c%d", c.ID, i))
	}
	{
		var cwg sync.WaitGroup
		for _, k := range keysC {
			cwg.Add(1)
			go func(k string) {
				defer cwg.Done()
				if res := e.get(k); res.Err == nil {
					e.judge(res, "concurrent_populate")
				}
			}(k)
		}
		cwg.Wait()
		r.Add("keys_stored_concurrently", int64(len(keysC)))
	}
	e.log("populated %d keys sequentially and %d concurrently; SIGKILL", len(keysA), len(keysC))
	e.pike.Kill()
	r.Add("kills_external_at_quiescence", 1)
	e.setNow(e.now() + 1 + int64(c.ID%3))
	// ---- incarnation 2: armed
	if c.Kind == "selfkill" {
		e.pike.Points = fmt.Sprintf("%s=kill@%d", c.Point, c.Nth)
	}
	if !e.start("armed") {
		return
	}
	var keysB []string
	nB := 40
	for i := 0; i < nB; i++ {
		t := "c"
		if i%5 == 4 {
			t = "u"
		}
		keysB = append(keysB, fmt.Sprintf("/c08/%s/%d/b%d", t, c.ID, i))
	}
	var wg sync.WaitGroup
	stop := make(chan struct{})
	work := func(w int) {
		defer wg.Done()
		lr := rand.New(rand.NewSource(r.Seed*1000 + int64(c.ID*17+w)))
		for i := 0; i < 60; i++ {
			select {
			case <-stop:
				return
			default:
			}
			if !e.pike.Alive() {
				return
			}
			switch lr.Intn(10) {
			case 0:
				k := keysA[lr.Intn(len(keysA))]
				if e.purge(k) {
					e.log("purged %s", k)
				}
			case 1, 2:
				res := e.get(keysA[lr.Intn(len(keysA))])
				if res.Err == nil {
					e.judge(res, "armed")
				}
			default:
				res := e.get(keysB[lr.Intn(len(keysB))])
				if res.Err == nil {
					e.judge(res, "armed")
				}
			}
		}
	}
	for w := 0; w < 6; w++ {
		wg.Add(1)
		go work(w)
	}
	switch c.Kind {
	case "sigkill":
		time.Sleep(time.Duration(20+rnd.Intn(150)) * time.Millisecond)
		e.pike.Kill()
		r.Add("kills_external_during_writes", 1)
		e.log("external SIGKILL during concurrent writes")
	case "sigterm":
		time.Sleep(100 * time.Millisecond)
		close(stop)
		wg.Wait()
		e.pike.Signal(syscall.SIGTERM)
		if !e.pike.WaitExit(40 * time.Second) {
			r.Violate("graceful_stop_hangs", nil, "pike did not exit within 40 s of SIGTERM", nil, c)
			return
		}
		r.Add("graceful_stops", 1)
		e.log("SIGTERM, exited")
	}
	wg.Wait()
	if c.Kind == "selfkill" {
		// the workload ends; if the point was reached n times the process has killed itself
		if e.pike.WaitExit(3*time.Second) && e.pike.CountEvent("selfkill:"+c.Point) > 0 {
			r.Add("crash_point_hit:"+c.Point, 1)
			e.log("self-kill at %s #%d", c.Point, c.Nth)
		} else {
			r.Add("crash_point_not_reached:"+c.Point, 1)
			e.pike.Kill()
			e.log("point %s not reached %d times; external SIGKILL", c.Point, c.Nth)
		}
	}
	if e.pike.Alive() {
		e.pike.Kill()
	}
	e.setNow(e.now() + 1 + int64(c.ID%2))
	// ---- incarnation 3: probes
	e.pike.Points = ""
	if !e.start("probe") {
		return
	}
	all := append(append(append([]string{}, keysA...), keysB...), keysC...)
	probe := func(phase string) bool {
		for _, k := range all {
			if !e.judge(e.get(k), phase) {
				return false
			}
		}
		return true
	}
	if !probe("same_second") {
		return
	}
	e.setNow(e.now() + c08T/2)
	if !probe("mid_life") {
		return
	}
	// exactly at expiry / one second later, per key, in increasing time
	type ver struct {
		uri string
		f   *hx.Fetch
	}
	var vers []ver
	latest := map[string]*hx.Fetch{}
	for _, f := range e.farm.Log() {
		if c08Cacheable(f.URI) {
			latest[f.URI] = f
		}
	}
	for _, k := range all {
		if f := latest[k]; f != nil {
			vers = append(vers, ver{k, f})
		}
	}
	for i := range vers {
		for j := i + 1; j < len(vers); j++ {
			if vers[j].f.VEnd < vers[i].f.VEnd {
				vers[i], vers[j] = vers[j], vers[i]
			}
		}
	}
	for _, v := range vers {
		if v.f.VStart+c08T > e.now() {
			e.setNow(v.f.VStart + c08T)
		}
		r.Add("probes_at_expiry_second", 1)
		if !e.judge(e.get(v.uri), "at_expiry") {
			return
		}
	}
	for _, v := range vers {
		if v.f.VEnd+1+c08T+1 > e.now() {
			e.setNow(v.f.VEnd + 1 + c08T + 1)
		}
		r.Add("probes_after_expiry", 1)
		res := e.get(v.uri)
		if !e.judge(res, "after_expiry") {
			return
		}
	}
	// ---- incarnation 4: killed again, restarted when every stored version is past its expiry: the very
	// first lookup of each key after the restart must not serve the stored record
	e.pike.Kill()
	e.setNow(e.now() + c08T + 5)
	if !e.start("restart_after_expiry") {
		return
	}
	r.Add("restarts_with_everything_expired", 1)
	for _, k := range all {
		res := e.get(k)
		if !e.judge(res, "first_lookup_after_restart_past_expiry") {
			return
		}
		if res.Label == "hit" {
			r.Violate("served_after_original_expiry", map[string]string{"kind": e.c.Kind, "point": e.c.Point}, "hit on the first lookup after a restart although every version had expired", res.Brief(), map[string]interface{}{"case": e.c, "uri": k})
			return
		}
	}
	r.Eval(1)
	r.Distinct(fmt.Sprintf("%s %s #%d", c.Kind, c.Point, c.Nth))
	if c.ID < 3 {
		r.Sample(map[string]interface{}{"case": c, "trace": e.trace})
	}
	if rep := e.pike.RaceReports(); bytes.Contains([]byte(rep), []byte("WARNING: DATA RACE")) && bytes.Contains([]byte(rep), []byte("vicanso/pike/")) {
		r.Add("race_reports_in_pike_process", 1)
	}
}

// c08StoreWriteCrash: in-process enumeration of crash points at the granularity of single store writes.
// A scripted store applies only the first n writes after the crash is armed (the rest are acknowledged and
// lost, as if the process had died); then the memory is dropped (new dispatcher on the same store) and
// the key is judged exactly like after a real restart.
func c08StoreWriteCrash(r *hx.Run) {
	storeURL := fmt.Sprintf("mem://c08w/%d", r.Seed)
	ms := hx.NewMemStore(storeURL)
	var armed atomic.Bool
	var budget, writes atomic.Int64
	ms.Script = func(op, key string, cur []byte) hx.StoreFault {
		if op == "get" || !armed.Load() {
			return hx.StoreFault{}
		}
		if writes.Add(1) > budget.Load() {
			return hx.StoreFault{Kind: "drop"}
		}
		return hx.StoreFault{}
	}
	port := hx.FreePorts(1)[0]
	gen := 0
	mk := func(origin string) *config.PikeConfig {
		gen++
		return &config.PikeConfig{
			Caches:    []config.CacheConfig{{Name: fmt.Sprintf("c08w%d", gen), Size: 1000, HitForPass: strconv.Itoa(c08P) + "s", Store: storeURL}},
			Upstreams: []config.UpstreamConfig{{Name: "u", Servers: []config.UpstreamServerConfig{{Addr: origin}}}},
			Locations: []config.LocationConfig{{Name: "l", Upstream: "u"}},
			Servers:   []config.ServerConfig{{Addr: srvAddr(port), Locations: []string{"l"}, Cache: fmt.Sprintf("c08w%d", gen)}},
		}
	}
	var origin string
	w := newWorldCfg(r, 1, true, func(o []string) *config.PikeConfig { origin = o[0]; return mk(o[0]) })
	defer w.Farm.Close()
	restart := func() {
		// all memory is gone, the store is what it is
		w.Cfg = mk(origin)
		w.apply(r)
	}
	id := 0
	for _, history := range []string{"expire_then_refetch", "purge_then_refetch", "hit_for_pass_then_cacheable", "first_fetch"} {
		for n := int64(0); n <= 3; n++ {
			id++
			c := c08Case{ID: 100000 + id, Kind: "store_write_crash:" + history, Nth: int(n)}
			e := &c08Env{r: r, c: c, farm: w.Farm, cl: w.Cl, addr: w.Addr, purged: map[string]map[int64]bool{}, infl: map[string]int{}, starts: map[string]int{}}
			uri := fmt.Sprintf("/c08/c/%d/w", c.ID)
			cacheableNow := atomic.Bool{}
			cacheableNow.Store(true)
			w.Farm.SetScript(func(f *hx.Fetch) *hx.Reply {
				if !cacheableNow.Load() {
					return &hx.Reply{Status: 200, Header: [][2]string{{"Content-Type", "text/plain"}, {"X-Multi", "a"}, {"X-Multi", "b"}, {"Cache-Control", "no-store"}}, Body: hx.IdentBody(f, 1500, "text")}
				}
				return e.script(f)
			})
			get := func() *hx.Result {
				return w.Cl.Do(hx.Req{Addr: w.Addr, Host: "c08.example", URI: uri, Timeout: 10 * time.Second})
			}
			ok := true
			switch history {
			case "expire_then_refetch":
				ok = e.judgeInproc(get(), "populate")
				w.Clock.Advance(c08T + 1)
			case "purge_then_refetch":
				ok = e.judgeInproc(get(), "populate")
			case "hit_for_pass_then_cacheable":
				cacheableNow.Store(false)
				get()
				cacheableNow.Store(true)
				w.Clock.Advance(c08P + 1)
			}
			if !ok {
				continue
			}
			writes.Store(0)
			budget.Store(n)
			armed.Store(true)
			if history == "purge_then_refetch" {
				purgeDirect(r, "", "GET c08.example "+uri, map[string]string{"kind": c.Kind})
				// the purge may or may not have reached the store; it is not judged here
			}
			get() // the refetch whose persistence is cut short
			armed.Store(false)
			restart()
			r.Add("in_process_restarts_after_partial_store_writes", 1)
			for _, adv := range []int64{0, c08T / 2, c08T/2 + 1, 1} {
				w.Clock.Advance(adv)
				if !e.judgeInproc(get(), fmt.Sprintf("after_crash_at_write_%d", n)) {
					break
				}
			}
			r.Eval(1)
			r.Distinct(fmt.Sprintf("store_write_crash %s n=%d", history, n))
			w.Clock.Advance(c08T + 5)
		}
	}
}

// c08AgeAcrossReload: the origin sends an Age of its own. Whatever pike shows as Age for such a response,
// the same stored version shows it "continuing" after the memory was dropped and the record reloaded: a
// hit after the reload never carries a smaller Age than a hit one second before it.
func c08AgeAcrossReload(r *hx.Run) {
	storeURL := fmt.Sprintf("mem://c08age/%d", r.Seed)
	hx.NewMemStore(storeURL)
	port := hx.FreePorts(1)[0]
	gen := 0
	var origin string
	mk := func(o string) *config.PikeConfig {
		gen++
		name := fmt.Sprintf("c08age%d", gen)
		return &config.PikeConfig{
			Caches:    []config.CacheConfig{{Name: name, Size: 1000, HitForPass: "20s", Store: storeURL}},
			Upstreams: []config.UpstreamConfig{{Name: "u", Servers: []config.UpstreamServerConfig{{Addr: o}}}},
			Locations: []config.LocationConfig{{Name: "l", Upstream: "u"}},
			Servers:   []config.ServerConfig{{Addr: srvAddr(port), Locations: []string{"l"}, Cache: name}},
		}
	}
	w := newWorldCfg(r, 1, true, func(o []string) *config.PikeConfig { origin = o[0]; return mk(o[0]) })
	defer w.Farm.Close()
	for i, originAge := range []string{"", "30", "1", "59"} {
		uri := fmt.Sprintf("/c08/c/age/%d", i)
		w.Farm.SetScript(func(f *hx.Fetch) *hx.Reply {
			h := [][2]string{{"Content-Type", "text/plain"}, {"Cache-Control", "max-age=100"}}
			if originAge != "" {
				h = append(h, [2]string{"Age", originAge})
			}
			return &hx.Reply{Status: 200, Header: h, Body: hx.IdentBody(f, 1500, "text")}
		})
		get := func() *hx.Result {
			return w.Cl.Do(hx.Req{Addr: w.Addr, Host: "c08.example", URI: uri, Timeout: 10 * time.Second})
		}
		first := get()
		w.Clock.Advance(1)
		before := get() // a plain hit, one second old
		w.Cfg = mk(origin)
		w.apply(r) // all memory is gone, the record is in the store
		w.Clock.Advance(1)
		after := get() // reloaded from its record (or refetched)
		r.Eval(1)
		r.Add("age_compared_across_a_reload_from_the_store", 1)
		cs := map[string]interface{}{"uri": uri, "origin_age": originAge}
		if first.Err != nil || before.Err != nil || after.Err != nil || before.Label != "hit" {
			r.InconclusiveCase("C08 age across reload: the entry was not a hit before the reload")
			continue
		}
		if after.Label == "hit" && after.FetchID == before.FetchID && after.Age < before.Age {
			r.Violate("age_does_not_continue", map[string]string{"kind": "inproc_reload", "origin_age": originAge}, fmt.Sprintf("the same stored version was served with Age %d before the reload from the store and with Age %d one second later, after it", before.Age, after.Age), map[string]interface{}{"before": before.Brief(), "after": after.Brief()}, cs)
			continue
		}
		r.Distinct("age_across_reload origin_age=" + originAge + " after=" + after.Label)
		w.Clock.Advance(200)
	}
}

// judgeInproc: the same oracle as after a real restart, on the virtual clock of the in-process world
func (e *c08Env) judgeInproc(res *hx.Result, phase string) bool { return e.judge(res, phase) }

func c08(r *hx.Run) {
	r.Level = "fault_enumeration"
	r.Rule = "real pike binary (race build) with a badger store and a clock file; every second case with an LRU of 32 entries for about 100 keys (constant eviction and reload from badger). Per case three incarnations on the same store: (1) populate cacheable (T=100) and uncacheable (period 20 s) keys, 8 sequentially and 48 in one concurrent burst, SIGKILL at quiescence; (2) concurrent writes of 40 new keys, hits and purges (admin API) with the crash armed: self-kill the n-th time a named hook point is reached (cacheable.enter/released/saved, hfp.enter/released/saved, get.loaded, purge.removed; n first/middle/late), external SIGKILL at a random moment, or SIGTERM; (3) restart and probe every key in the same second, at mid-life, at the exact expiry second and one second later; (4) SIGKILL, move the clock past every expiry, restart, probe again (first lookup after the restart). In-process: responses whose origin sent its own Age show an Age that does not fall when the memory is dropped and the record reloaded; and the same oracle judges crashes at the granularity of single store writes: after expiry+refetch, purge+refetch, a hit-for-pass period turning cacheable and a first fetch, only the first n store writes (n = 0..3) are applied, then the memory is dropped and the key is probed across its lifetime. Every answer is judged against the origin's log: byte-identical version of that key, hit only inside the version's original lifetime with Age continuing from the original fetch and no upstream contact, never a version whose purge completed, hit-for-pass only inside a marker's period; pike must come up after every stop. Non-trivial/distinct = (kind, point, n) whose crash point was reached."
	r.Assume = []string{"refetching is always allowed (survival of an entry is not demanded)", "clock = real clock + offset file (whole seconds); verdicts use [call,return] clock intervals", "power-loss durability is out of scope (SIGKILL keeps the page cache)"}
	bin, err := hx.BuildPike(r.Scratch)
	if err != nil {
		fmt.Println(err)
		r.Inconclusive("cannot build pike")
		return
	}
	rnd := rand.New(rand.NewSource(r.Seed))
	points := []string{"cacheable.enter", "cacheable.released", "cacheable.saved", "hfp.enter", "hfp.released", "hfp.saved", "get.loaded", "purge.removed"}
	if r.Thorough() {
		points = append(points, "cache.fetched", "get.woken", "get.registered", "proxy.afterUpstream", "disp.got")
	}
	var cases []c08Case
	id := 0
	reps := r.Pick(1, 30)
	for rep := 0; rep < reps; rep++ {
		for _, p := range points {
			nths := []int{1, 5 + rnd.Intn(8)}
			if p == "purge.removed" || p[:3] == "hfp" {
				nths = []int{1, 2 + rnd.Intn(3)}
			}
			if rep > 0 {
				nths = []int{1 + rnd.Intn(20)}
			}
			for _, n := range nths {
				cases = append(cases, c08Case{ID: id, Kind: "selfkill", Point: p, Nth: n})
				id++
			}
		}
		for i := 0; i < r.Pick(3, 4); i++ {
			cases = append(cases, c08Case{ID: id, Kind: "sigkill"})
			id++
		}
		cases = append(cases, c08Case{ID: id, Kind: "sigterm"})
		id++
	}
	sem := make(chan struct{}, 8)
	var wg sync.WaitGroup
	for _, c := range cases {
		if r.TooMany() {
			break
		}
		wg.Add(1)
		sem <- struct{}{}
		go func(c c08Case, seed int64) {
			defer wg.Done()
			defer func() { <-sem }()
			c08Run(r, bin, c, rand.New(rand.NewSource(seed)))
		}(c, rnd.Int63())
	}
	wg.Wait()
	r.Set("cases", len(cases))
	c08StoreWriteCrash(r)
	c08AgeAcrossReload(r)
}

func init() { register("C08", "fault_enumeration", c08) }
