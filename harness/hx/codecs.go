package hx

import (
	"bytes"
	"fmt"

	"github.com/golang/snappy"
	"github.com/klauspost/compress/zstd"
	"github.com/pierrec/lz4"
)

// reference encoders/decoders for the formats pike only decodes (same libraries pike links;
// no independent implementation is installed, zstd additionally has the zstd CLI)

// LZ4Block lz4 block encoding; ok=false if the library declares the data incompressible
func LZ4Block(b []byte) ([]byte, bool) {
	dst := make([]byte, lz4.CompressBlockBound(len(b)))
	n, err := lz4.CompressBlock(b, dst, nil)
	if err != nil || n == 0 {
		return nil, false
	}
	return dst[:n], true
}

// UnLZ4Block decode with a buffer of the known original size
func UnLZ4Block(b []byte, origLen int) ([]byte, error) {
	dst := make([]byte, origLen+64)
	n, err := lz4.UncompressBlock(b, dst)
	if err != nil {
		return nil, err
	}
	return dst[:n], nil
}

// ZstdBytes zstd frame at level (1..4 = klauspost speed levels)
func ZstdBytes(b []byte, level int) []byte {
	l := zstd.EncoderLevel(level)
	if l < zstd.SpeedFastest || l > zstd.SpeedBestCompression {
		l = zstd.SpeedDefault
	}
	enc, _ := zstd.NewWriter(nil, zstd.WithEncoderLevel(l), zstd.WithEncoderConcurrency(1))
	defer enc.Close()
	return enc.EncodeAll(b, nil)
}

// UnzstdBytes decode a zstd stream
func UnzstdBytes(b []byte) ([]byte, error) {
	dec, err := zstd.NewReader(nil, zstd.WithDecoderConcurrency(1))
	if err != nil {
		return nil, err
	}
	defer dec.Close()
	return dec.DecodeAll(b, nil)
}

// SnappyBytes snappy block format
func SnappyBytes(b []byte) []byte { return snappy.Encode(nil, b) }

// UnsnappyBytes decode snappy block
func UnsnappyBytes(b []byte) ([]byte, error) { return snappy.Decode(nil, b) }

// Encode body with one of the documented upstream encodings; self-checked (encode -> decode)
func Encode(encoding string, b []byte, level int) ([]byte, error) {
	var out, back []byte
	var err error
	switch encoding {
	case "":
		return b, nil
	case "gzip":
		out = GzipBytes(b, level)
		back, err = GunzipBytes(out)
	case "br":
		out = BrotliBytes(b, level)
		back, err = UnbrotliBytes(out)
	case "lz4":
		var ok bool
		out, ok = LZ4Block(b)
		if !ok {
			return nil, fmt.Errorf("lz4: incompressible or empty")
		}
		back, err = UnLZ4Block(out, len(b))
	case "zst":
		out = ZstdBytes(b, level)
		back, err = UnzstdBytes(out)
	case "snz":
		out = SnappyBytes(b)
		back, err = UnsnappyBytes(out)
	default:
		return nil, fmt.Errorf("unknown encoding %s", encoding)
	}
	if err != nil {
		return nil, fmt.Errorf("reference codec self-check failed: %v", err)
	}
	if !bytes.Equal(back, b) {
		return nil, fmt.Errorf("reference codec self-check: round trip differs")
	}
	return out, nil
}
