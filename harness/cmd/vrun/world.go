package main

import (
	"fmt"
	"os"
	"time"

	"github.com/vicanso/pike/config"
	"verifh/hx"
)

// W an in-process pike world: origins, one or more pike servers, a client, optional clock/points
type W struct {
	Farm  *hx.Farm
	Cl    *hx.Client
	Clock *hx.Clock
	Pts   *hx.Points
	Addr  string // first server
	Cfg   *config.PikeConfig
}

const vclockStart = 1_700_000_000

// newSimpleWorld starts origins and one pike server from a SimpleCfg (Origins/Port filled in here)
func newSimpleWorld(r *hx.Run, sc hx.SimpleCfg, nOrigins int, virtualClock bool) *W {
	w := &W{}
	var clockFn func() int64
	if virtualClock {
		w.Clock = hx.InstallClock(vclockStart)
		clockFn = w.Clock.Now
	}
	w.Farm = hx.NewFarm(nOrigins, clockFn)
	for _, o := range w.Farm.Origins {
		sc.Origins = append(sc.Origins, o.URL())
	}
	if sc.Port == 0 {
		sc.Port = hx.FreePorts(1)[0]
	}
	w.Cfg = sc.Build()
	w.Addr = w.Cfg.Servers[0].Addr
	w.apply(r)
	w.Cl = hx.NewClient(clockFn)
	return w
}

// newWorldCfg starts a world from a full configuration built by mk(origin urls)
func newWorldCfg(r *hx.Run, nOrigins int, virtualClock bool, mk func(origins []string) *config.PikeConfig) *W {
	w := &W{}
	var clockFn func() int64
	if virtualClock {
		w.Clock = hx.InstallClock(vclockStart)
		clockFn = w.Clock.Now
	}
	w.Farm = hx.NewFarm(nOrigins, clockFn)
	urls := []string{}
	for _, o := range w.Farm.Origins {
		urls = append(urls, o.URL())
	}
	w.Cfg = mk(urls)
	w.Addr = w.Cfg.Servers[0].Addr
	w.apply(r)
	w.Cl = hx.NewClient(clockFn)
	return w
}

func (w *W) apply(r *hx.Run) {
	if err := hx.Apply(w.Cfg); err != nil {
		fmt.Println("cannot apply configuration:", err)
		os.Exit(3)
	}
	for _, s := range w.Cfg.Servers {
		if err := hx.WaitListening(s.Addr, 5*time.Second); err != nil {
			fmt.Println("pike server does not listen:", err)
			os.Exit(3)
		}
	}
}

func srvAddr(port int) string { return fmt.Sprintf("127.0.0.1:%d", port) }
