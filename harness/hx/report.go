package hx

import (
	"encoding/json"
	"flag"
	"fmt"
	"os"
	"path/filepath"
	"sort"
	"sync"
	"sync/atomic"
	"time"
)

// Violation one refutation with its structured witness
type Violation struct {
	Kind    string            `json:"kind"`
	Params  map[string]string `json:"params"`
	Text    string            `json:"text"`
	Witness interface{}       `json:"witness,omitempty"`
	Case    interface{}       `json:"case,omitempty"`
	Known   string            `json:"known_finding,omitempty"`
}

// KnownFinding entry of /verif/KNOWN_FINDINGS.json
type KnownFinding struct {
	Property string            `json:"property"`
	ID       string            `json:"id"`
	State    string            `json:"state"` // known | fixed
	Commit   string            `json:"commit,omitempty"`
	Match    map[string]string `json:"match,omitempty"` // "kind" + parameters that must be equal
	Text     string            `json:"text"`
}

// Run one check run: counters, verdicts, evidence
type Run struct {
	Out     string
	Prop    string
	Tier    string
	Seed    int64
	Level   string
	Verif   string // /verif
	Scratch string
	Start   time.Time
	Replay  string

	mu       sync.Mutex
	Evals    int64
	distinct map[string]struct{}
	samples  []interface{}
	Cov      map[string]interface{}
	counters map[string]int64
	viol     []Violation
	knownHit map[string]int
	known    []KnownFinding
	incon    []string
	// cases that were not judged (see InconclusiveCase)
	inconCases []string
	inconCaseN int
	Rule       string
	Assume     []string
	MaxViol    int
	aborted    atomic.Bool
}

// Flags common command line flags of the vrun sub-commands
type Flags struct {
	Out     string
	Tier    string
	Seed    int64
	Verif   string
	Scratch string
	Replay  string
}

// ParseFlags parses the common flags from args
func ParseFlags(args []string) Flags {
	fs := flag.NewFlagSet("vrun", flag.ExitOnError)
	var f Flags
	fs.StringVar(&f.Tier, "tier", "quick", "quick|thorough")
	fs.Int64Var(&f.Seed, "seed", 1, "seed")
	fs.StringVar(&f.Verif, "verif", "/verif", "verif dir")
	fs.StringVar(&f.Out, "out", "", "where evidence/ and replays/ are written (default: the verif dir)")
	fs.StringVar(&f.Scratch, "scratch", "", "scratch dir")
	fs.StringVar(&f.Replay, "replay", "", "replay file")
	fs.Parse(args)
	if f.Scratch == "" {
		f.Scratch, _ = os.MkdirTemp("/var/tmp", "vrun")
	}
	return f
}

// NewRun starts a run
func NewRun(prop, level string, f Flags) *Run {
	if f.Out == "" {
		f.Out = f.Verif
	}
	r := &Run{Prop: prop, Tier: f.Tier, Seed: f.Seed, Level: level, Verif: f.Verif, Out: f.Out, Scratch: f.Scratch, Start: time.Now(), Replay: f.Replay,
		distinct: map[string]struct{}{}, Cov: map[string]interface{}{}, counters: map[string]int64{}, knownHit: map[string]int{}, MaxViol: 20}
	buf, err := os.ReadFile(filepath.Join(f.Verif, "KNOWN_FINDINGS.json"))
	if err == nil {
		var all []KnownFinding
		if err := json.Unmarshal(buf, &all); err != nil {
			fmt.Println("cannot parse KNOWN_FINDINGS.json:", err)
			os.Exit(3)
		}
		for _, k := range all {
			if k.Property == prop {
				r.known = append(r.known, k)
			}
		}
	}
	return r
}

// Thorough whether tier is thorough
func (r *Run) Thorough() bool { return r.Tier == "thorough" }

// Pick quick or thorough value
func (r *Run) Pick(quick, thorough int) int {
	v := quick
	if r.Thorough() {
		v = thorough
	}
	// VERIF_SCALE (float) scales every case count; for experiments only
	if s := os.Getenv("VERIF_SCALE"); s != "" {
		var f float64
		fmt.Sscan(s, &f)
		if f > 0 {
			v = int(float64(v) * f)
			if v < 1 {
				v = 1
			}
		}
	}
	return v
}

// Eval counts one evaluated case
func (r *Run) Eval(n int64) {
	r.mu.Lock()
	r.Evals += n
	r.mu.Unlock()
}

// Distinct records the signature of a non-trivial case
func (r *Run) Distinct(sig string) {
	r.mu.Lock()
	r.distinct[sig] = struct{}{}
	r.mu.Unlock()
}

// Sample keeps up to 6 written-out cases
func (r *Run) Sample(s interface{}) {
	r.mu.Lock()
	if len(r.samples) < 6 {
		r.samples = append(r.samples, s)
	}
	r.mu.Unlock()
}

// Add adds to a named observation counter
func (r *Run) Add(name string, n int64) {
	r.mu.Lock()
	r.counters[name] += n
	r.mu.Unlock()
}

// Max keeps the maximum of a named observation
func (r *Run) Max(name string, v int64) {
	r.mu.Lock()
	if cur, ok := r.counters[name]; !ok || v > cur {
		r.counters[name] = v
	}
	r.mu.Unlock()
}

// Counter value
func (r *Run) Counter(name string) int64 {
	r.mu.Lock()
	defer r.mu.Unlock()
	return r.counters[name]
}

// Set sets a coverage key
func (r *Run) Set(name string, v interface{}) {
	r.mu.Lock()
	r.Cov[name] = v
	r.mu.Unlock()
}

// Inconclusive records that something could not be decided
func (r *Run) Inconclusive(reason string) {
	r.mu.Lock()
	if len(r.incon) < 50 {
		r.incon = append(r.incon, reason)
	}
	r.mu.Unlock()
}

// InconclusiveCase: one case could not be brought into the state it is meant to judge (a watchdog of the
// harness fired, a scratch process did not start). The case is not judged and is reported separately;
// the run as a whole stays conclusive as long as such cases are few.
func (r *Run) InconclusiveCase(reason string) {
	r.mu.Lock()
	r.inconCaseN++
	if len(r.inconCases) < 50 {
		r.inconCases = append(r.inconCases, reason)
	}
	r.mu.Unlock()
}

// Violations so far (unlisted ones)
func (r *Run) Violations() int {
	r.mu.Lock()
	defer r.mu.Unlock()
	n := 0
	for _, v := range r.viol {
		if v.Known == "" {
			n++
		}
	}
	return n
}

// TooMany whether enough unlisted violations were collected to stop early
func (r *Run) TooMany() bool { return r.aborted.Load() || r.Violations() >= r.MaxViol }

// Abort stops the run early (after a violation whose repetition would only burn watchdog time)
func (r *Run) Abort() { r.aborted.Store(true) }

// Violate reports a violation; it is matched against the known findings on its structured
// witness (kind + params), never on free text
func (r *Run) Violate(kind string, params map[string]string, text string, witness interface{}, cs interface{}) {
	v := Violation{Kind: kind, Params: params, Text: text, Witness: witness, Case: cs}
	for _, k := range r.known {
		if k.State != "known" {
			continue
		}
		if k.Match["kind"] != kind {
			continue
		}
		ok := true
		for key, want := range k.Match {
			if key == "kind" {
				continue
			}
			if params[key] != want {
				ok = false
				break
			}
		}
		if ok {
			v.Known = k.ID
			break
		}
	}
	r.mu.Lock()
	defer r.mu.Unlock()
	if v.Known != "" {
		r.knownHit[v.Known]++
		if r.knownHit[v.Known] > 3 {
			return
		}
	}
	if len(r.viol) < 200 {
		r.viol = append(r.viol, v)
	}
}

// Finish writes evidence and replay files, prints the verdict lines and returns the exit code
func (r *Run) Finish() int {
	r.mu.Lock()
	defer r.mu.Unlock()
	wall := time.Since(r.Start).Seconds()
	cov := map[string]interface{}{}
	for k, v := range r.Cov {
		cov[k] = v
	}
	keys := make([]string, 0, len(r.counters))
	for k := range r.counters {
		keys = append(keys, k)
	}
	sort.Strings(keys)
	obs := map[string]int64{}
	for _, k := range keys {
		obs[k] = r.counters[k]
	}
	cov["observed"] = obs
	cov["evaluations"] = r.Evals
	cov["distinct_nontrivial"] = len(r.distinct)
	cov["rule"] = r.Rule
	samples := r.samples
	if len(samples) == 0 {
		samples = []interface{}{map[string]interface{}{"note": "no case was completed far enough to be sampled in this run"}}
	}
	cov["samples"] = samples
	unlisted := 0
	var knownLines []string
	knownSeen := map[string]bool{}
	os.MkdirAll(filepath.Join(r.Out, "replays", r.Prop), 0755)
	if old, _ := filepath.Glob(filepath.Join(r.Out, "replays", r.Prop, fmt.Sprintf("%d-%s-*.json", r.Seed, r.Tier))); r.Replay == "" {
		for _, f := range old {
			os.Remove(f)
		}
	}
	var violLines []string
	nrep := 0
	for _, v := range r.viol {
		if v.Known != "" {
			if !knownSeen[v.Known] {
				knownSeen[v.Known] = true
				for _, k := range r.known {
					if k.ID == v.Known {
						knownLines = append(knownLines, fmt.Sprintf("KNOWN-FINDING: property=%s %s (%s; seen %d times this run)", r.Prop, k.Text, k.ID, r.knownHit[k.ID]))
					}
				}
			}
			continue
		}
		unlisted++
		if nrep >= 10 {
			continue
		}
		nrep++
		path := filepath.Join(r.Out, "replays", r.Prop, fmt.Sprintf("%d-%s-%d.json", r.Seed, r.Tier, nrep))
		rep := map[string]interface{}{"property": r.Prop, "seed": r.Seed, "tier": r.Tier, "kind": v.Kind, "params": v.Params, "explanation": v.Text, "case": v.Case, "witness": v.Witness}
		buf, _ := json.MarshalIndent(rep, "", " ")
		os.WriteFile(path, buf, 0644)
		violLines = append(violLines, fmt.Sprintf("VIOLATION property=%s replay=%s", r.Prop, path))
		txt := v.Text
		if len(txt) > 400 {
			txt = txt[:400] + "..."
		}
		fmt.Printf("  violation kind=%s params=%v: %s\n", v.Kind, v.Params, txt)
	}
	kf := []string{}
	for id := range knownSeen {
		kf = append(kf, id)
	}
	sort.Strings(kf)
	cov["known_findings"] = kf
	if r.inconCaseN > 0 {
		cov["inconclusive_cases_not_judged"] = r.inconCaseN
		cov["inconclusive_case_reasons"] = r.inconCases
	}
	if len(r.incon) > 0 {
		cov["inconclusive"] = r.incon
	}
	ev := map[string]interface{}{
		"property_id": r.Prop, "tier": r.Tier, "seed": r.Seed, "level": r.Level, "coverage": cov,
		"assumptions": r.Assume, "wall_s": float64(int(wall*100)) / 100, "violations": unlisted,
	}
	if r.Assume == nil {
		ev["assumptions"] = []string{}
	}
	if r.Replay == "" {
		buf, _ := json.MarshalIndent(ev, "", " ")
		os.MkdirAll(filepath.Join(r.Out, "evidence"), 0755)
		if err := os.WriteFile(filepath.Join(r.Out, "evidence", r.Prop+".json"), buf, 0644); err != nil {
			fmt.Println("cannot write evidence:", err)
		}
	}
	fmt.Printf("%s %s seed=%d: evaluations=%d distinct_nontrivial=%d wall=%.1fs\n", r.Prop, r.Tier, r.Seed, r.Evals, len(r.distinct), wall)
	for _, k := range keys {
		fmt.Printf("  observed %s = %d\n", k, r.counters[k])
	}
	for _, l := range knownLines {
		fmt.Println(l)
	}
	for _, l := range violLines {
		fmt.Println(l)
	}
	if unlisted > 0 {
		return 1
	}
	for _, s := range r.inconCases {
		fmt.Println("INCONCLUSIVE-CASE (not judged):", s)
	}
	// a few cases that could not be set up do not make the run inconclusive; many do
	limit := 3
	if n := len(r.distinct) / 20; n > limit {
		limit = n
	}
	if r.inconCaseN > limit {
		r.incon = append(r.incon, fmt.Sprintf("%d cases could not be judged (limit %d)", r.inconCaseN, limit))
	}
	if len(r.incon) > 0 {
		for _, s := range r.incon {
			fmt.Println("INCONCLUSIVE:", s)
		}
		return 2
	}
	if len(r.distinct) < 2 || r.Evals < 1 {
		fmt.Println("INCONCLUSIVE: the run observed too little")
		return 2
	}
	fmt.Printf("HELD property=%s on everything explored\n", r.Prop)
	return 0
}

// ReadReplay seed, tier and violation kind recorded in a replay file
func ReadReplay(path string) (seed int64, tier, kind string, err error) {
	buf, err := os.ReadFile(path)
	if err != nil {
		return
	}
	var rep struct {
		Seed int64  `json:"seed"`
		Tier string `json:"tier"`
		Kind string `json:"kind"`
	}
	if err = json.Unmarshal(buf, &rep); err != nil {
		return
	}
	return rep.Seed, rep.Tier, rep.Kind, nil
}

// SawKind whether a violation (listed or not) of this kind was reported in this run
func (r *Run) SawKind(kind string) bool {
	r.mu.Lock()
	defer r.mu.Unlock()
	for _, v := range r.viol {
		if v.Kind == kind {
			return true
		}
	}
	return false
}
