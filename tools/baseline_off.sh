#!/bin/bash
# Runs the repository's own test suite with the verif guard OFF and compares with the
# 65 stable tests of /root/.vp/BASELINE.json (3 network tests are expected to fail offline).
export GOFLAGS=-mod=mod GOPROXY=off GOSUMDB=off GOTOOLCHAIN=local
out=$(mktemp "${TMPDIR:-/var/tmp}/baseline.XXXXXX.json")
trap 'rm -f "$out"' EXIT
(cd /repo && go test -json -vet=off -count=1 -timeout 25m ./... > "$out" 2>/dev/null)
python3 - "$out" <<'PY'
import json,sys
base=json.load(open('/root/.vp/BASELINE.json'))['stable_pass']
res={}
for l in open(sys.argv[1]):
    try: e=json.loads(l)
    except Exception: continue
    if e.get('Test') and '/' not in e['Test'] and e.get('Action') in ('pass','fail','skip'):
        res[e['Package']+'::'+e['Test']]=e['Action']
bad=[t for t in base if res.get(t)!='pass']
print("baseline(guard off): %d/%d stable tests pass"%(len(base)-len(bad),len(base)))
for t in bad: print("NOT PASSING:",t,res.get(t))
sys.exit(1 if bad else 0)
PY
