#!/bin/bash
# tools/run_all.sh [quick|thorough] [ids...] — developer tool: run the registered checks one after the other
# on /repo's current tree and print one line per check (exit code, wall time, verdict lines).
TIER="${1:-quick}"; shift
IDS="$@"
[ -z "$IDS" ] && IDS=$(python3 -c 'import json;print(" ".join(c["property_id"] for c in json.load(open("MANIFEST.json"))["checks"]))')
cd "$(cd "$(dirname "$0")/.." && pwd)"
fail=0
for id in $IDS; do
  t0=$(date +%s)
  out=$(./check $id $TIER 2>&1); rc=$?
  t1=$(date +%s)
  kn=$(echo "$out" | grep -c '^KNOWN-FINDING')
  echo "$id rc=$rc $((t1-t0))s known=$kn $(echo "$out" | grep -E '^(VIOLATION|INCONCLUSIVE|BUILD FAILED)' | head -3 | tr '\n' ' ')"
  [ $rc -ne 0 ] && { fail=1; echo "$out" | grep "violation kind" | head -5 | cut -c1-300; }
done
exit $fail
