package main

import (
	"bytes"
	"encoding/binary"
	"encoding/hex"
	"encoding/json"
	"fmt"
	"math/rand"
	"net/http"
	"os"
	"os/exec"
	"path/filepath"
	"regexp"
	"runtime"
	"sort"
	"strconv"
	"strings"
	"sync"
	"sync/atomic"
	"time"

	"github.com/vicanso/pike/cache"
	"verifh/hx"
)

// C09: the persistence format round-trips exactly and rejects garbage safely.
// Everything that can panic, hang or exhaust memory runs in a child process (vrun child c09 ...)
// which logs the case index before each case; the parent turns a dead child into a verdict.

type c09Viol struct {
	Kind   string            `json:"kind"`
	Params map[string]string `json:"params"`
	Text   string            `json:"text"`
	Input  string            `json:"input_hex,omitempty"`
	Case   interface{}       `json:"case,omitempty"`
}

type c09Result struct {
	Concurrent       int64          `json:"concurrent_decodes"`
	RoundTrips       int64          `json:"round_trips"`
	ReencodedDiffer  int64          `json:"reencoded_bytes_differ_info"`
	StoreLoads       int64          `json:"records_loaded_through_the_store_path"`
	RespRoundTrips   int64          `json:"response_round_trips"`
	Prefixes         int64          `json:"prefixes_checked"`
	PrefixesRejected int64          `json:"prefixes_rejected"`
	Mutated          map[string]int `json:"mutated_inputs_by_kind"`
	MutAccepted      int64          `json:"mutated_accepted_without_error"`
	MutRejected      int64          `json:"mutated_rejected"`
	MaxAllocRatio    float64        `json:"max_alloc_bytes_per_input_byte"`
	DirectedValid    int            `json:"directed_valid_records_decoded"`
	MaxDecodeMS      float64        `json:"max_decode_ms"`
	Distinct         []string       `json:"distinct"`
	Samples          []interface{}  `json:"samples"`
	Viol             []c09Viol      `json:"violations"`
}

// add keeps at most 8 violations per (kind, params)
func (res *c09Result) add(v c09Viol) {
	n := 0
	for _, x := range res.Viol {
		if x.Kind == v.Kind && fmt.Sprint(x.Params) == fmt.Sprint(v.Params) {
			n++
		}
	}
	if n < 8 {
		res.Viol = append(res.Viol, v)
	}
}

var c09Accepts = []string{"", "gzip", "br", "gzip, br", "deflate", "identity"}

type c09Spec struct {
	State     string      `json:"state"` // hit | hfp | fresh
	Header    [][2]string `json:"header"`
	Status    int         `json:"status"`
	RawLen    int         `json:"raw_len"`
	Kind      string      `json:"body_kind"`
	Variants  int         `json:"variants_bits(raw,gzip,br)"`
	Srv       string      `json:"compress_srv"`
	MinLen    int         `json:"min_length"`
	Filter    string      `json:"filter"`
	CreatedAt int64       `json:"clock_at_store"`
	TTL       int         `json:"ttl"`
}

func c09GenSpec(rnd *rand.Rand) c09Spec {
	s := c09Spec{State: []string{"hit", "hit", "hit", "hfp", "fresh"}[rnd.Intn(5)], Status: []int{200, 404, 301, 500, 0, 99999}[rnd.Intn(6)]}
	nh := []int{0, 1, 3, 10, 200}[rnd.Intn(5)]
	vals := []string{"", "plain", "two words", "café", "日本語", "a,b;c=d", `q"uote`, "tab\there", strings.Repeat("v", 300), "caf\xe9 latin1", "\xff\xfe"}
	for i := 0; i < nh; i++ {
		name := fmt.Sprintf("X-H%d", rnd.Intn(nh/2+1))
		if rnd.Intn(5) == 0 {
			name = []string{"Content-Type", "Set-Cookie", "Vary", "ETag", "Cache-Control"}[rnd.Intn(5)]
		}
		v := vals[rnd.Intn(len(vals)-2)]
		if rnd.Intn(40) == 0 {
			v = vals[len(vals)-2+rnd.Intn(2)] // not valid UTF-8
		}
		s.Header = append(s.Header, [2]string{name, v})
	}
	if rnd.Intn(2) == 0 {
		s.Header = append(s.Header, [2]string{"Content-Type", []string{"text/html", "application/json", "image/png"}[rnd.Intn(3)]})
	}
	s.RawLen = []int{0, 1, 10, 1023, 1024, 1025, 5000, 70000}[rnd.Intn(8)]
	if rnd.Intn(50) == 0 {
		s.RawLen = 2 << 20
	}
	s.Kind = []string{"text", "rand", "runs"}[rnd.Intn(3)]
	s.Variants = 1 + rnd.Intn(7)
	s.Srv = []string{"", "bestCompression", "custom", "名前", strings.Repeat("n", 100)}[rnd.Intn(5)]
	s.MinLen = []int{0, 1, 1024, 1 << 20, 1<<31 - 1}[rnd.Intn(5)]
	s.Filter = []string{"", "", "text|json", "^image/", `a.*b+c?`, `\pL{2}`}[rnd.Intn(6)]
	s.CreatedAt = []int64{0, 1, 1700000000, 1 << 31, 1 << 40, -5}[rnd.Intn(6)]
	s.TTL = []int{1, 60, 3600, 1<<31 - 1}[rnd.Intn(4)]
	return s
}

func c09BuildResp(s c09Spec, seed int64) *cache.HTTPResponse {
	resp := &cache.HTTPResponse{CompressSrv: s.Srv, CompressMinLength: s.MinLen, StatusCode: s.Status, Header: http.Header{}}
	if s.Filter != "" {
		resp.CompressContentTypeFilter = regexp.MustCompile(s.Filter)
	}
	for _, kv := range s.Header {
		resp.Header.Add(kv[0], kv[1])
	}
	raw := hx.PRNGBytes(seed, s.RawLen, s.Kind)
	if s.Variants&1 != 0 {
		resp.RawBody = raw
	}
	if s.Variants&2 != 0 {
		resp.GzipBody = hx.GzipBytes(raw, 1)
	}
	if s.Variants&4 != 0 {
		resp.BrBody = hx.BrotliBytes(raw, 1)
	}
	return resp
}

type fillOut struct {
	CE     string
	Body   string
	Hdr    []string
	Status int
	Err    string
}

func c09Fill(resp *cache.HTTPResponse, accept string) fillOut {
	if resp == nil {
		return fillOut{Err: "nil response"}
	}
	req, _ := http.NewRequest("GET", "/", nil)
	if accept != "" {
		req.Header.Set("Accept-Encoding", accept)
	}
	ce, body, hdr, err := c13FillOnce(resp, accept)
	if err != nil {
		return fillOut{Err: err.Error()}
	}
	var hs []string
	for k, v := range hdr {
		hs = append(hs, k+"="+strings.Join(v, "|"))
	}
	sort.Strings(hs)
	// headers are compared through a digest (kept short for witnesses)
	return fillOut{CE: ce, Body: hx.Sha(body) + ":" + strconv.Itoa(len(body)), Hdr: []string{fmt.Sprintf("%d lines sha %s", len(hs), hx.Sha([]byte(strings.Join(hs, "\n"))))}, Status: resp.StatusCode}
}

var (
	c09StoreOnce sync.Once
	c09StoreMem  *hx.MemStore
	// c09StoreLoad: the entry a dispatcher bound to that store builds for key (status, has a response, age,
	// went to fetching, and a function completing the fetch it may have started)
	c09StoreLoad func(key []byte) (string, bool, int, bool, func())
)

// c09RoundTrip entry-level and response-level round trip of one generated entry
func c09RoundTrip(res *c09Result, s c09Spec, seed int64, clock *hx.Clock) {
	viol := func(kind string, params map[string]string, text string) {
		res.add(c09Viol{Kind: kind, Params: params, Text: text, Case: s})
	}
	resp := c09BuildResp(s, seed)
	// response level
	rb, err := resp.Bytes()
	if err != nil {
		viol("encode_failed", nil, "HTTPResponse.Bytes: "+err.Error())
		return
	}
	resp2 := &cache.HTTPResponse{}
	if err := resp2.FromBytes(rb); err != nil {
		viol("roundtrip_decode_failed", map[string]string{"level": "response"}, "FromBytes(Bytes(x)) failed: "+err.Error())
		return
	}
	res.RespRoundTrips++
	invalidUTF8 := false
	for _, kv := range s.Header {
		if strings.ContainsAny(kv[1], "\xe9\xff") {
			invalidUTF8 = true
		}
	}
	hdrClass := "valid_utf8"
	if invalidUTF8 {
		hdrClass = "invalid_utf8_header_value"
	}
	for _, a := range c09Accepts {
		f1, f2 := c09Fill(resp, a), c09Fill(resp2, a)
		if fmt.Sprint(f1) != fmt.Sprint(f2) {
			viol("roundtrip_behaviour_differs", map[string]string{"level": "response", "header_class": hdrClass}, fmt.Sprintf("Fill(Accept-Encoding %q) before %v after %v", a, f1, f2))
			return
		}
	}
	// entry level
	clock.Set(s.CreatedAt)
	hc := cache.NewHTTPCache()
	switch s.State {
	case "hit":
		hc.Get()
		hc.Cacheable(c09BuildResp(s, seed), s.TTL)
	case "hfp":
		hc.Get()
		hc.HitForPass(s.TTL)
	}
	data, err := hc.Bytes()
	if err != nil {
		viol("encode_failed", nil, "httpCache.Bytes: "+err.Error())
		return
	}
	hc2 := cache.NewHTTPCache()
	if err := hc2.FromBytes(data); err != nil {
		viol("roundtrip_decode_failed", map[string]string{"level": "entry", "state": s.State}, "FromBytes(Bytes(e)) failed: "+err.Error())
		return
	}
	// the same record handed to a fresh entry by the store-load path (what a lookup after a restart or an
	// eviction does): it must behave as the original does
	// (a record whose expiry time is not positive - a clock before 1970 in the generator - is by design what the
	// store path treats as "no expiry set", i.e. invalid: such cases are left to the decoder-level comparison)
	if (s.State == "hit" || s.State == "hfp") && s.CreatedAt+int64(s.TTL) > 0 {
		c09StoreOnce.Do(func() {
			c09StoreMem = hx.NewMemStore("mem://c09rt")
			c09StoreMem.NoLog = true
			d := cache.NewDispatcher(cache.DispatcherOption{Name: "c09rt", Size: 4096, HitForPass: 300, Store: "mem://c09rt"})
			c09StoreLoad = func(key []byte) (string, bool, int, bool, func()) {
				e := d.GetHTTPCache(key)
				st, rp, age := e.GetWithAge()
				d.RemoveHTTPCache(key)
				return fmt.Sprint(st), rp != nil, age, st == cache.StatusFetching, func() { e.HitForPass(1) }
			}
		})
		key := fmt.Sprintf("GET c09.example /rt/%d", seed)
		c09StoreMem.Put(key, append([]byte{}, data...))
		clock.Set(s.CreatedAt)
		st1, r1, age1 := hc.GetWithAge()
		st3, has3, age3, fetching3, finish := c09StoreLoad([]byte(key))
		res.StoreLoads++
		if fetching3 && st1 != cache.StatusFetching {
			// (the entry went to fetching: complete it so that nothing stays pending)
			finish()
		}
		if fmt.Sprint(st1) != st3 || age1 != age3 || (r1 != nil) != has3 {
			viol("roundtrip_behaviour_differs", map[string]string{"level": "store_load", "state": s.State, "header_class": hdrClass}, fmt.Sprintf("original status=%v age=%d response=%v; entry loaded from the store status=%v age=%d response=%v (upstream status code %d)", st1, age1, r1 != nil, st3, age3, has3, s.Status))
			return
		}
	}
	data2, _ := hc2.Bytes()
	if !bytes.Equal(data, data2) {
		// information only: an entry without a response re-encodes with an empty response record; the
		// statement demands identical behaviour, not identical bytes
		res.ReencodedDiffer++
	}
	for _, dt := range []int64{0, 1, int64(s.TTL), int64(s.TTL) + 1} {
		clock.Set(s.CreatedAt + dt)
		if s.State == "fresh" {
			break
		}
		st1, r1, age1 := hc.GetWithAge()
		st2, r2, age2 := hc2.GetWithAge()
		if st1 != st2 || age1 != age2 || (r1 == nil) != (r2 == nil) {
			viol("roundtrip_behaviour_differs", map[string]string{"level": "entry", "state": s.State, "header_class": hdrClass}, fmt.Sprintf("at +%d s: original status=%v age=%d, restored status=%v age=%d", dt, st1, age1, st2, age2))
			return
		}
		if r1 != nil {
			for _, a := range c09Accepts {
				f1, f2 := c09Fill(r1, a), c09Fill(r2, a)
				if fmt.Sprint(f1) != fmt.Sprint(f2) {
					viol("roundtrip_behaviour_differs", map[string]string{"level": "entry", "state": s.State, "header_class": hdrClass}, fmt.Sprintf("Fill(Accept-Encoding %q) before %v after %v", a, f1, f2))
					return
				}
			}
		}
		if st1 == cache.StatusFetching {
			// both flipped to fetching at expiry: complete them so the next probe is defined
			break
		}
	}
	res.RoundTrips++
	res.Distinct = append(res.Distinct, fmt.Sprintf("rt|%s|%d|%d|%d|%s|%d", s.State, s.Variants, s.RawLen, len(s.Header), s.Filter, s.MinLen))
}

// measured decode: panics, time, allocation
func c09Decode(res *c09Result, data []byte, kind string, progress *os.File, idx int64, wantErr bool) (err error) {
	var b [8]byte
	binary.BigEndian.PutUint64(b[:], uint64(idx))
	progress.WriteAt(b[:], 0)
	done := make(chan struct{})
	var ms0, ms1 runtime.MemStats
	t0 := time.Now()
	measure := kind != "truncate" || idx%8 == 0
	go func() {
		defer close(done)
		if measure {
			runtime.ReadMemStats(&ms0)
		}
		hc := cache.NewHTTPCache()
		err = hc.FromBytes(data)
		if measure {
			runtime.ReadMemStats(&ms1)
		}
	}()
	select {
	case <-done:
	case <-time.After(20 * time.Second):
		res.Viol = append(res.Viol, c09Viol{Kind: "decode_hang", Params: map[string]string{"mutation": kind}, Text: "FromBytes did not return within 20 s", Input: hexHead(data)})
		return fmt.Errorf("hang")
	}
	dt := float64(time.Since(t0).Microseconds()) / 1000
	if dt > res.MaxDecodeMS {
		res.MaxDecodeMS = dt
	}
	alloc := float64(ms1.TotalAlloc - ms0.TotalAlloc)
	ratio := alloc / float64(len(data)+1)
	if len(data) > 64 && ratio > res.MaxAllocRatio {
		res.MaxAllocRatio = ratio
	}
	if alloc > 32*float64(len(data))+1<<20 {
		cause := "unknown"
		if f := c09FilterField(data); f != "" {
			var m0, m1 runtime.MemStats
			runtime.ReadMemStats(&m0)
			regexp.Compile(f)
			runtime.ReadMemStats(&m1)
			if float64(m1.TotalAlloc-m0.TotalAlloc) > 16*float64(len(data))+(1<<19) {
				cause = "filter_regexp_compile"
			}
		}
		res.add(c09Viol{Kind: "decode_allocation_over_bound", Params: map[string]string{"cause": cause}, Text: fmt.Sprintf("decoding %d bytes allocated %.0f bytes (bound 32x+1MiB)", len(data), alloc), Input: hexHead(data)})
	}
	if err == nil {
		res.MutAccepted++
	} else {
		res.MutRejected++
	}
	return err
}

func hexHead(b []byte) string {
	if len(b) > 4096 {
		return hex.EncodeToString(b[:4096]) + "...(" + strconv.Itoa(len(b)) + " bytes)"
	}
	return hex.EncodeToString(b)
}

// c09FilterField extracts the filter field of an entry record if the framing is intact
func c09FilterField(data []byte) string {
	if len(data) < 12 {
		return ""
	}
	p := 8
	rd := func() (int, bool) {
		if p+4 > len(data) {
			return 0, false
		}
		v := int(binary.BigEndian.Uint32(data[p:]))
		p += 4
		return v, true
	}
	n, ok := rd() // compress srv
	if !ok || p+n > len(data) {
		return ""
	}
	p += n
	if _, ok = rd(); !ok { // min length
		return ""
	}
	n, ok = rd()
	if !ok || p+n > len(data) || n > 1<<20 {
		return ""
	}
	return string(data[p : p+n])
}

func c09Child(args []string) {
	// args: seed nEntries nMutations outfile progressfile
	seed, _ := strconv.ParseInt(args[0], 10, 64)
	nEntries, _ := strconv.Atoi(args[1])
	nMut, _ := strconv.Atoi(args[2])
	out, prog := args[3], args[4]
	runtime.GOMAXPROCS(2)
	hx.QuietPikeLog("")
	rnd := rand.New(rand.NewSource(seed))
	clock := hx.InstallClock(1700000000)
	res := &c09Result{Mutated: map[string]int{}}
	pf, _ := os.OpenFile(prog, os.O_CREATE|os.O_RDWR, 0644)
	var valid [][]byte
	for i := 0; i < nEntries; i++ {
		s := c09GenSpec(rnd)
		c09RoundTrip(res, s, int64(i), clock)
		if len(valid) < 200 && s.RawLen <= 5000 && len(s.Header) <= 10 {
			clock.Set(s.CreatedAt)
			hc := cache.NewHTTPCache()
			hc.Get()
			if s.State == "hfp" {
				hc.HitForPass(s.TTL)
			} else {
				hc.Cacheable(c09BuildResp(s, int64(i)), s.TTL)
			}
			if d, err := hc.Bytes(); err == nil {
				valid = append(valid, d)
			}
		}
		if i < 3 {
			res.Samples = append(res.Samples, s)
		}
	}
	idx := int64(0)
	// directed valid records at the edges of the format: bodies that inflate to hundreds of times the
	// record size, and a header set of tens of kilobytes. They round-trip, and decoding them is measured
	// like every other decode (a decoder must not do work in proportion to the inflated size).
	bigHdr := c09Spec{State: "hit", Status: 200, RawLen: 100, Kind: "text", Variants: 1, TTL: 60, CreatedAt: 1700000000}
	for i := 0; i < 150; i++ {
		bigHdr.Header = append(bigHdr.Header, [2]string{fmt.Sprintf("X-Big-%d", i%40), strings.Repeat("policy-value ", 30) + fmt.Sprint(i)})
	}
	for di, s := range []c09Spec{
		{State: "hit", Status: 200, RawLen: 8 << 20, Kind: "zero", Variants: 2, TTL: 60, CreatedAt: 1700000000, Header: [][2]string{{"Content-Type", "text/plain"}}},
		{State: "hit", Status: 200, RawLen: 8 << 20, Kind: "zero", Variants: 4, TTL: 60, CreatedAt: 1700000000, Header: [][2]string{{"Content-Type", "text/plain"}}},
		{State: "hit", Status: 200, RawLen: 4 << 20, Kind: "runs", Variants: 6, TTL: 60, CreatedAt: 1700000000, Header: [][2]string{{"Content-Type", "application/json"}}},
		bigHdr,
	} {
		c09RoundTrip(res, s, int64(900000+di), clock)
		clock.Set(s.CreatedAt)
		hc := cache.NewHTTPCache()
		hc.Get()
		hc.Cacheable(c09BuildResp(s, int64(900000+di)), s.TTL)
		d, err := hc.Bytes()
		if err != nil {
			continue
		}
		idx++
		res.DirectedValid++
		if err := c09Decode(res, d, "valid_directed", pf, idx, false); err != nil {
			res.add(c09Viol{Kind: "roundtrip_decode_failed", Params: map[string]string{"level": "entry", "class": "directed_valid_record"}, Text: fmt.Sprintf("a record pike produced itself (%d bytes, %d header lines, raw body %d bytes) is rejected by its decoder: %v", len(d), len(s.Header), s.RawLen, err), Case: map[string]interface{}{"state": s.State, "raw_len": s.RawLen, "kind": s.Kind, "variants": s.Variants, "header_lines": len(s.Header)}})
		}
	}
	res.MutAccepted, res.MutRejected = 0, 0
	// truncation at every offset (sampled for long records)
	for vi, v := range valid {
		for cut := 0; cut < len(v); cut++ {
			// every offset for the first 30 records; for the others every offset of the first and last
			// 96 bytes (where all framing fields of small bodies live) and every 13th in between
			if vi >= 30 && cut > 96 && cut < len(v)-96 && cut%13 != 0 {
				continue
			}
			idx++
			err := c09Decode(res, v[:cut], "truncate", pf, idx, true)
			res.Prefixes++
			if err != nil {
				res.PrefixesRejected++
			} else {
				res.add(c09Viol{Kind: "truncated_record_accepted", Params: nil, Text: fmt.Sprintf("prefix of %d of %d bytes decoded without error", cut, len(v)), Input: hexHead(v[:cut])})
			}
		}
	}
	res.MutAccepted, res.MutRejected = 0, 0
	lens := []uint32{0, 1, 0x7fffffff, 0x80000000, 0xffffffff, 0xfffffff0, 1 << 20, 1 << 28}
	for i := 0; i < nMut && len(valid) > 0; i++ {
		v := append([]byte{}, valid[rnd.Intn(len(valid))]...)
		kind := []string{"bitflip", "lenfield", "lenfield_pm1", "splice", "random", "byteset", "crafted_filter"}[rnd.Intn(7)]
		switch kind {
		case "bitflip":
			for k := 0; k < 1+rnd.Intn(4); k++ {
				p := rnd.Intn(len(v))
				v[p] ^= 1 << uint(rnd.Intn(8))
			}
		case "lenfield":
			p := rnd.Intn(len(v)-4+1) &^ 0
			if rnd.Intn(2) == 0 {
				p = []int{0, 4, 8}[rnd.Intn(3)]
			}
			if p+4 <= len(v) {
				binary.BigEndian.PutUint32(v[p:], lens[rnd.Intn(len(lens))])
			}
		case "lenfield_pm1":
			p := []int{4, 8}[rnd.Intn(2)]
			if p+4 <= len(v) {
				cur := binary.BigEndian.Uint32(v[p:])
				binary.BigEndian.PutUint32(v[p:], cur+uint32(rnd.Intn(3))-1)
			}
		case "splice":
			o := valid[rnd.Intn(len(valid))]
			a, b := rnd.Intn(len(v)), rnd.Intn(len(o))
			v = append(append([]byte{}, v[:a]...), o[b:]...)
		case "random":
			v = make([]byte, rnd.Intn(300))
			rnd.Read(v)
		case "byteset":
			p := rnd.Intn(len(v))
			v[p] = []byte{0, 0xff, '{', '"', '['}[rnd.Intn(5)]
		case "crafted_filter":
			// a well-formed record whose filter field is an expensive but valid regexp
			s := c09GenSpec(rnd)
			s.RawLen, s.Header, s.State = 10, nil, "hit"
			s.Filter = strings.Repeat(`\pL{1000}`, 1+rnd.Intn(100))
			if _, err := regexp.Compile(s.Filter); err == nil {
				resp := c09BuildResp(s, 1)
				hc := cache.NewHTTPCache()
				hc.Get()
				hc.Cacheable(resp, 60)
				resp.CompressSrv = s.Srv
				v, _ = hc.Bytes()
			}
		}
		idx++
		res.Mutated[kind]++
		c09Decode(res, v, kind, pf, idx, false)
		if i%97 == 0 {
			res.Distinct = append(res.Distinct, fmt.Sprintf("mut|%s|%d", kind, len(v)))
		}
	}
	c09ConcurrentDecode(res, rnd, clock)
	buf, _ := json.Marshal(res)
	os.WriteFile(out, buf, 0644)
}

// c09ConcurrentDecode: records with different settings are decoded by several goroutines at once (as
// lookups of different keys do); every decoded entry must re-encode to exactly the record it came from
func c09ConcurrentDecode(res *c09Result, rnd *rand.Rand, clock *hx.Clock) {
	filters := []string{"text|json", "image|svg", "^application/", "xml", "a.*b"}
	var records [][]byte
	for i, f := range filters {
		s := c09Spec{State: "hit", Status: 200, RawLen: 300 + 50*i, Kind: "text", Variants: 1, Srv: fmt.Sprintf("srv%d", i), MinLen: 100 * i, Filter: f, CreatedAt: 1700000000, TTL: 60,
			Header: [][2]string{{"Content-Type", "text/plain"}, {"X-I", fmt.Sprint(i)}}}
		clock.Set(s.CreatedAt)
		hc := cache.NewHTTPCache()
		hc.Get()
		resp := c09BuildResp(s, int64(i))
		hc.Cacheable(resp, s.TTL)
		// Cacheable stores with the best-compression profile; keep the per-record settings distinct
		resp.CompressSrv = s.Srv
		if d, err := hc.Bytes(); err == nil {
			records = append(records, d)
		}
	}
	var wg sync.WaitGroup
	var bad atomic.Int64
	var n atomic.Int64
	var first atomic.Value
	for g := 0; g < 8; g++ {
		wg.Add(1)
		go func(g int) {
			defer wg.Done()
			for i := 0; i < 4000; i++ {
				rec := records[(g+i)%len(records)]
				hc := cache.NewHTTPCache()
				if err := hc.FromBytes(rec); err != nil {
					bad.Add(1)
					first.CompareAndSwap(nil, "decode error: "+err.Error())
					continue
				}
				back, _ := hc.Bytes()
				n.Add(1)
				if !bytes.Equal(back, rec) {
					bad.Add(1)
					first.CompareAndSwap(nil, fmt.Sprintf("record %d decoded concurrently re-encodes differently (filter/settings of another record?)", (g+i)%len(records)))
				}
			}
		}(g)
	}
	wg.Wait()
	res.Concurrent = n.Load()
	if bad.Load() > 0 {
		res.add(c09Viol{Kind: "concurrent_decode_mixes_records", Text: fmt.Sprintf("%d of %d concurrent decodes wrong; first: %v", bad.Load(), n.Load()+bad.Load(), first.Load())})
	}
	res.Distinct = append(res.Distinct, "concurrent_decode")
}

func c09(r *hx.Run) {
	r.Rule = "child process per batch. Structured entries (state hit/hit-for-pass/fresh, 0-200 header lines incl. multi-valued, empty, UTF-8, quotes, tabs and (rarely) non-UTF-8 bytes, every subset of raw/gzip/br variants, bodies 0..2 MiB, profile names, min lengths, filters, clock values 0..2^40 and negative, lifetimes up to 2^31-1): Bytes -> FromBytes must give identical re-encoded bytes and identical Get/Age/Fill (6 Accept-Encoding values) at +0,+1,+T,+T+1 s; every record with a positive expiry time is also handed to a fresh entry through the store-load path (dispatcher over a scripted store) and must answer as the original (status, Age, response present). Directed valid records (8 MiB bodies compressed 200x and more, a 60 kB header set) must round-trip and decode within the allocation bound. Byte level on 200 valid records: truncation at every offset must error; bit flips, length-field edits (0, +-1, 2^31, 2^32-1..), splices, random strings, crafted filter fields: no panic, no hang (20 s), allocation <= 32x input + 1 MiB (runtime.MemStats.TotalAlloc delta). Non-trivial/distinct = distinct entry shape / mutation class."
	r.Assume = []string{"a truncated bare HTTPResponse record is not judged (the persisted record of the statement is the entry)", "allocation is measured with 2 OS threads and includes the harness goroutine's own allocations (small constant)"}
	exe, _ := os.Executable()
	batches := r.Pick(1, 8)
	nEntries := r.Pick(1200, 2500)
	nMut := r.Pick(12000, 60000)
	total := &c09Result{Mutated: map[string]int{}}
	for b := 0; b < batches && !r.TooMany(); b++ {
		seed := r.Seed*1000 + int64(b)
		out := filepath.Join(r.Scratch, fmt.Sprintf("c09-%d.json", b))
		prog := filepath.Join(r.Scratch, fmt.Sprintf("c09-%d.progress", b))
		cmd := exec.Command(exe, "child", "c09", fmt.Sprint(seed), fmt.Sprint(nEntries), fmt.Sprint(nMut), out, prog)
		cmd.Env = append(os.Environ(), "GOMEMLIMIT=6GiB")
		var stderr bytes.Buffer
		cmd.Stderr = &stderr
		timer := time.AfterFunc(15*time.Minute, func() { cmd.Process.Kill() })
		err := cmd.Run()
		timer.Stop()
		buf, rerr := os.ReadFile(out)
		if harnessFailure(err, rerr) {
			// the child could not be started or its result file vanished: not an observation about pike
			r.Inconclusive(fmt.Sprintf("child process could not be run: %v / %v", err, rerr))
			continue
		}
		if err != nil || rerr != nil {
			idx := int64(-1)
			if pb, e := os.ReadFile(prog); e == nil && len(pb) >= 8 {
				idx = int64(binary.BigEndian.Uint64(pb))
			}
			tail := stderr.String()
			if len(tail) > 3000 {
				tail = tail[:3000]
			}
			r.Violate("decoder_crashed_process", map[string]string{"batch_seed": fmt.Sprint(seed)}, fmt.Sprintf("child process died (%v) at byte-level case #%d of batch seed %d", err, idx, seed), tail, map[string]interface{}{"batch_seed": seed, "case_index": idx, "replay": "vrun child c09 <seed> <entries> <mutations> out progress"})
			continue
		}
		var res c09Result
		json.Unmarshal(buf, &res)
		total.RoundTrips += res.RoundTrips
		r.Add("concurrent_decodes_of_records_with_different_settings", res.Concurrent)
		r.Add("reencoded_bytes_differ_info", res.ReencodedDiffer)
		r.Add("records_loaded_through_the_store_path", res.StoreLoads)
		total.RespRoundTrips += res.RespRoundTrips
		total.Prefixes += res.Prefixes
		total.DirectedValid += res.DirectedValid
		total.PrefixesRejected += res.PrefixesRejected
		total.MutAccepted += res.MutAccepted
		total.MutRejected += res.MutRejected
		for k, v := range res.Mutated {
			total.Mutated[k] += v
		}
		if res.MaxAllocRatio > total.MaxAllocRatio {
			total.MaxAllocRatio = res.MaxAllocRatio
		}
		if res.MaxDecodeMS > total.MaxDecodeMS {
			total.MaxDecodeMS = res.MaxDecodeMS
		}
		for _, d := range res.Distinct {
			r.Distinct(d)
		}
		for _, s := range res.Samples {
			r.Sample(s)
		}
		for _, v := range res.Viol {
			r.Violate(v.Kind, v.Params, v.Text, v.Input, v.Case)
		}
	}
	r.Eval(total.RoundTrips + total.Prefixes + total.MutAccepted + total.MutRejected)
	r.Add("entry_round_trips", total.RoundTrips)
	r.Add("response_round_trips", total.RespRoundTrips)
	r.Add("prefixes_checked", total.Prefixes)
	r.Add("prefixes_rejected", total.PrefixesRejected)
	r.Add("mutated_accepted_without_error", total.MutAccepted)
	r.Add("directed_valid_records_decoded(8MiB_bodies,60kB_headers)", int64(total.DirectedValid))
	r.Add("mutated_rejected", total.MutRejected)
	r.Set("mutated_inputs_by_kind", total.Mutated)
	r.Set("max_alloc_bytes_per_input_byte", total.MaxAllocRatio)
	r.Set("max_decode_ms", total.MaxDecodeMS)
}

func init() {
	register("C09", "exploration", c09)
	children["c09"] = c09Child
}
