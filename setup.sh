#!/bin/bash
# Builds the framework from files on disk only (offline) and warms the Go build cache.
set -e
HERE="$(cd "$(dirname "$0")" && pwd)"
export GOFLAGS=-mod=mod GOPROXY=off GOSUMDB=off GOTOOLCHAIN=local
cd "$HERE/harness"
[ -f go.sum ] || cp /repo/go.sum go.sum
OUT="$(mktemp -d "${TMPDIR:-/var/tmp}/verif-setup-XXXXXX")"
trap 'rm -rf "$OUT"' EXIT
go build -tags verif -o "$OUT/vrun" ./cmd/vrun
go build -tags verif -race -o "$OUT/vrun-race" ./cmd/vrun
(cd /repo && go build -tags verif -race -o "$OUT/pike" . )
echo "setup ok"
