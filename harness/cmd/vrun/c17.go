package main

import (
	"fmt"
	yaml "gopkg.in/yaml.v2"
	"math/rand"
	"os"
	"path/filepath"
	"reflect"
	"strings"
	"sync"
	"time"

	"github.com/vicanso/pike/config"
	"verifh/hx"
)

// C17: accepted configurations are closed under references and round-trip.

var c17Nasty = []string{"$HOME", "${PATH}", "a${b", "c}d", "cost$", "${", "$$", "yes", "no", "null", "~", "0x1F", "1e3", "a: b", "#x", " lead", "trail ", "日本語", "tab\tx", "q\"uote", "'single'", "- dash", "[x]", "{y}", "a,b", "%41", "on", "!!str", "|", ">", "@at", "`bt`", "multi\nline", "", "0", "-1", "3.14", "true"}

func nastyName(rnd *rand.Rand) string {
	for {
		s := c17Nasty[rnd.Intn(len(c17Nasty))]
		if s != "" && len(s) <= 20 {
			return s
		}
	}
}

func c17ValidConfig(rnd *rand.Rand, origins []string, ports []int, nasty bool) *config.PikeConfig {
	name := func(prefix string, i int) string {
		if nasty && rnd.Intn(2) == 0 {
			// the index keeps names distinct; where it goes decides whether leading/trailing characters
			// of the nasty value (white space, quotes, YAML indicators) stay leading/trailing
			switch rnd.Intn(4) {
			case 0:
				return fmt.Sprint(i) + nastyName(rnd)
			case 1:
				return []string{" ", "  ", "\t"}[rnd.Intn(3)] + prefix + fmt.Sprint(i)
			case 2:
				return prefix + fmt.Sprint(i) + []string{" ", "  ", "\t"}[rnd.Intn(3)]
			}
			return nastyName(rnd) + fmt.Sprint(i)
		}
		return fmt.Sprintf("%s%d", prefix, i)
	}
	free := func() string {
		if nasty {
			return c17Nasty[rnd.Intn(len(c17Nasty))]
		}
		return "remark"
	}
	cfg := &config.PikeConfig{}
	if rnd.Intn(3) == 0 {
		cfg.Admin = config.AdminConfig{User: "adminuser", Password: "secret-pw", Remark: free()}
	}
	nComp := rnd.Intn(3)
	for i := 0; i < nComp; i++ {
		cfg.Compresses = append(cfg.Compresses, config.CompressConfig{Name: name("cmp", i), Levels: map[string]uint{"gzip": uint(rnd.Intn(10)), "br": uint(rnd.Intn(12))}, Remark: free()})
	}
	nCache := 1 + rnd.Intn(3)
	for i := 0; i < nCache; i++ {
		cc := config.CacheConfig{Name: name("cache", i), Size: 1 + rnd.Intn(5000), HitForPass: []string{"5m", "30s", "1h", "500ms"}[rnd.Intn(4)], Remark: free()}
		if nasty && rnd.Intn(5) == 0 {
			// a well-formed store url that cannot be opened when the configuration is applied
			cc.Store = "badger:///dev/null/c17-store"
		}
		cfg.Caches = append(cfg.Caches, cc)
	}
	nUp := 1 + rnd.Intn(3)
	for i := 0; i < nUp; i++ {
		u := config.UpstreamConfig{Name: name("up", i), Policy: []string{"", "first", "random", "roundRobin", "leastconn"}[rnd.Intn(5)], Remark: free()}
		if rnd.Intn(3) == 0 {
			u.HealthCheck = "/ping"
		}
		if rnd.Intn(4) == 0 {
			u.AcceptEncoding = "gzip"
		}
		for j := 0; j <= rnd.Intn(2); j++ {
			u.Servers = append(u.Servers, config.UpstreamServerConfig{Addr: origins[rnd.Intn(len(origins))], Backup: j > 0 && rnd.Intn(2) == 0})
		}
		cfg.Upstreams = append(cfg.Upstreams, u)
	}
	nLoc := 1 + rnd.Intn(4)
	for i := 0; i < nLoc; i++ {
		l := config.LocationConfig{Name: name("loc", i), Upstream: cfg.Upstreams[rnd.Intn(nUp)].Name, Remark: free()}
		if rnd.Intn(2) == 0 {
			l.Prefixes = []string{[]string{"/api", "/static", "/"}[rnd.Intn(3)]}
		}
		if rnd.Intn(3) == 0 {
			l.Hosts = []string{[]string{"aa.example", "bb.example"}[rnd.Intn(2)]}
		}
		if rnd.Intn(3) == 0 {
			l.Rewrites = []string{"/api/*:/$1"}
		}
		if rnd.Intn(3) == 0 {
			l.RespHeaders = []string{"X-Resp:" + strings.ReplaceAll(free(), ":", "")}
			l.ReqHeaders = []string{"X-Req:v"}
			l.QueryStrings = []string{"k:v"}
		}
		if rnd.Intn(3) == 0 {
			l.ProxyTimeout = []string{"30s", "1m", "500ms"}[rnd.Intn(3)]
		}
		cfg.Locations = append(cfg.Locations, l)
	}
	nSrv := 1 + rnd.Intn(len(ports))
	for i := 0; i < nSrv; i++ {
		s := config.ServerConfig{Addr: srvAddr(ports[i]), Cache: cfg.Caches[rnd.Intn(nCache)].Name, Remark: free()}
		for _, l := range cfg.Locations {
			if rnd.Intn(2) == 0 {
				s.Locations = append(s.Locations, l.Name)
			}
		}
		if len(s.Locations) == 0 {
			s.Locations = []string{cfg.Locations[0].Name}
		}
		if nComp > 0 && rnd.Intn(2) == 0 {
			s.Compress = cfg.Compresses[rnd.Intn(nComp)].Name
		}
		if rnd.Intn(2) == 0 {
			s.CompressMinLength = []string{"1kb", "100", "2mb"}[rnd.Intn(3)]
		}
		if rnd.Intn(3) == 0 {
			s.CompressContentTypeFilter = "text|json"
		}
		if rnd.Intn(4) == 0 {
			s.LogFormat = "{method} {uri} {status}"
		}
		cfg.Servers = append(cfg.Servers, s)
	}
	return cfg
}

// c17Defects single injected defects of documented kinds: each must make Validate fail
// c17NearMiss: a name that differs from the given one only in letter case (or, without letters, by one more character)
func c17NearMiss(name string) string {
	b := []rune(name)
	for i, ch := range b {
		if ch >= 'a' && ch <= 'z' {
			b[i] = ch - 32
			return string(b)
		}
		if ch >= 'A' && ch <= 'Z' {
			b[i] = ch + 32
			return string(b)
		}
	}
	return name + "x"
}

var c17Defects = []struct {
	name string
	fn   func(c *config.PikeConfig)
}{
	// references that miss an existing name by the case of one letter (judged only if they really dangle)
	{"nearmiss_location_upstream", func(c *config.PikeConfig) {
		l := &c.Locations[len(c.Locations)-1]
		l.Upstream = c17NearMiss(l.Upstream)
	}},
	{"nearmiss_server_location", func(c *config.PikeConfig) {
		sv := &c.Servers[0]
		if len(sv.Locations) > 0 {
			sv.Locations[0] = c17NearMiss(sv.Locations[0])
		}
	}},
	{"nearmiss_server_cache", func(c *config.PikeConfig) { c.Servers[0].Cache = c17NearMiss(c.Servers[0].Cache) }},
	{"nearmiss_server_compress", func(c *config.PikeConfig) {
		sv := &c.Servers[len(c.Servers)-1]
		if sv.Compress != "" {
			sv.Compress = c17NearMiss(sv.Compress)
		} else {
			sv.Cache = c17NearMiss(sv.Cache)
		}
	}},
	{"location_upstream_dangling", func(c *config.PikeConfig) { c.Locations[len(c.Locations)-1].Upstream = "nowhere" }},
	{"location_upstream_dangling_first", func(c *config.PikeConfig) { c.Locations[0].Upstream = "nowhere" }},
	{"server_location_dangling", func(c *config.PikeConfig) {
		c.Servers[len(c.Servers)-1].Locations = append(c.Servers[len(c.Servers)-1].Locations, "ghost")
	}},
	{"server_location_dangling_first_pos", func(c *config.PikeConfig) {
		c.Servers[0].Locations = append([]string{"ghost"}, c.Servers[0].Locations...)
	}},
	{"server_cache_dangling", func(c *config.PikeConfig) { c.Servers[len(c.Servers)-1].Cache = "nocache" }},
	{"server_cache_dangling_first", func(c *config.PikeConfig) { c.Servers[0].Cache = "nocache" }},
	{"server_compress_dangling", func(c *config.PikeConfig) { c.Servers[len(c.Servers)-1].Compress = "nocompress" }},
	{"server_cache_empty", func(c *config.PikeConfig) { c.Servers[0].Cache = "" }},
	{"name_too_long", func(c *config.PikeConfig) {
		c.Caches[0].Name = strings.Repeat("n", 21)
		c.Servers[0].Cache = c.Caches[0].Name
	}},
	{"cache_size_zero", func(c *config.PikeConfig) { c.Caches[0].Size = 0 }},
	{"cache_size_negative", func(c *config.PikeConfig) { c.Caches[0].Size = -5 }},
	{"hit_for_pass_not_duration", func(c *config.PikeConfig) { c.Caches[0].HitForPass = "5 minutes" }},
	{"hit_for_pass_missing", func(c *config.PikeConfig) { c.Caches[0].HitForPass = "" }},
	{"store_not_url", func(c *config.PikeConfig) { c.Caches[0].Store = "not a url" }},
	{"upstream_addr_no_scheme", func(c *config.PikeConfig) { c.Upstreams[0].Servers[0].Addr = "127.0.0.1:3000" }},
	{"upstream_addr_ftp", func(c *config.PikeConfig) { c.Upstreams[0].Servers[0].Addr = "ftp://127.0.0.1:3000" }},
	{"upstream_addr_missing", func(c *config.PikeConfig) { c.Upstreams[0].Servers[0].Addr = "" }},
	{"health_check_not_path", func(c *config.PikeConfig) { c.Upstreams[0].HealthCheck = "ping" }},
	{"policy_unknown", func(c *config.PikeConfig) { c.Upstreams[0].Policy = "fastest" }},
	{"prefix_not_path", func(c *config.PikeConfig) { c.Locations[0].Prefixes = []string{"api"} }},
	{"rewrite_not_pair", func(c *config.PikeConfig) { c.Locations[0].Rewrites = []string{"/api/*"} }},
	{"rewrite_three_parts", func(c *config.PikeConfig) { c.Locations[0].Rewrites = []string{"a:b:c"} }},
	{"query_not_pair", func(c *config.PikeConfig) { c.Locations[0].QueryStrings = []string{"novalue"} }},
	{"resp_header_not_pair", func(c *config.PikeConfig) { c.Locations[0].RespHeaders = []string{"X-A"} }},
	{"req_header_not_pair", func(c *config.PikeConfig) { c.Locations[0].ReqHeaders = []string{"X-A"} }},
	{"host_invalid", func(c *config.PikeConfig) { c.Locations[0].Hosts = []string{"not a host!"} }},
	{"proxy_timeout_invalid", func(c *config.PikeConfig) { c.Locations[0].ProxyTimeout = "fast" }},
	{"min_length_invalid", func(c *config.PikeConfig) { c.Servers[0].CompressMinLength = "big" }},
	{"filter_invalid_regexp", func(c *config.PikeConfig) { c.Servers[0].CompressContentTypeFilter = "text|(json" }},
	{"server_addr_missing", func(c *config.PikeConfig) { c.Servers[0].Addr = "" }},
	{"location_name_missing", func(c *config.PikeConfig) { c.Locations[0].Name = "" }},
	{"admin_user_short", func(c *config.PikeConfig) { c.Admin.User = "ab" }},
	{"admin_password_short", func(c *config.PikeConfig) { c.Admin.Password = "12345" }},
}

// c17Closed independent closure predicate
func c17Closed(c *config.PikeConfig) (bool, string) {
	ups, locs, caches, comps := map[string]bool{}, map[string]bool{}, map[string]bool{}, map[string]bool{}
	for _, u := range c.Upstreams {
		ups[u.Name] = true
	}
	for _, l := range c.Locations {
		locs[l.Name] = true
		if !ups[l.Upstream] {
			return false, "location " + l.Name + " names missing upstream " + l.Upstream
		}
	}
	for _, x := range c.Caches {
		caches[x.Name] = true
	}
	for _, x := range c.Compresses {
		comps[x.Name] = true
	}
	for _, s := range c.Servers {
		for _, l := range s.Locations {
			if !locs[l] {
				return false, "server " + s.Addr + " names missing location " + l
			}
		}
		if !caches[s.Cache] {
			return false, "server " + s.Addr + " names missing cache " + s.Cache
		}
		if s.Compress != "" && !comps[s.Compress] {
			return false, "server " + s.Addr + " names missing compress " + s.Compress
		}
	}
	return true, ""
}

func deepCopyCfg(c *config.PikeConfig) *config.PikeConfig {
	out := &config.PikeConfig{Admin: c.Admin}
	for _, x := range c.Compresses {
		y := x
		y.Levels = map[string]uint{}
		for k, v := range x.Levels {
			y.Levels[k] = v
		}
		out.Compresses = append(out.Compresses, y)
	}
	out.Caches = append(out.Caches, c.Caches...)
	for _, x := range c.Upstreams {
		y := x
		y.Servers = append([]config.UpstreamServerConfig{}, x.Servers...)
		out.Upstreams = append(out.Upstreams, y)
	}
	for _, x := range c.Locations {
		y := x
		y.Prefixes = append([]string(nil), x.Prefixes...)
		y.Rewrites = append([]string(nil), x.Rewrites...)
		y.QueryStrings = append([]string(nil), x.QueryStrings...)
		y.RespHeaders = append([]string(nil), x.RespHeaders...)
		y.ReqHeaders = append([]string(nil), x.ReqHeaders...)
		y.Hosts = append([]string(nil), x.Hosts...)
		out.Locations = append(out.Locations, y)
	}
	for _, x := range c.Servers {
		y := x
		y.Locations = append([]string(nil), x.Locations...)
		out.Servers = append(out.Servers, y)
	}
	return out
}

// normCfg normalises what the statement leaves open: version, yaml text, nil vs empty
func normCfg(c *config.PikeConfig) string {
	d := deepCopyCfg(c)
	d.Version, d.YAML = "", ""
	for i := range d.Compresses {
		if len(d.Compresses[i].Levels) == 0 {
			d.Compresses[i].Levels = nil
		}
	}
	return fmt.Sprintf("%#v", *d)
}

func c17(r *hx.Run) {
	r.Rule = "generated configurations (1-3 caches/upstreams/compress profiles, 1-4 locations, 1-3 servers, optional fields set or unset; names and free-text values drawn from strings that need YAML quoting). (1) Validate must accept each valid one and reject each of 37 single injected defects (every dangling reference, at first and last position, references that miss an existing name by the case of one letter, and every malformed documented field); any accepted configuration must pass the independent closure predicate. (2) Write then Read through the file client must return the same configuration (modulo version, yaml text, nil vs empty), also when the stored document was replaced from outside between two saves of the same configuration. (3) accepted configurations are applied to a freshly started real pike process and every server is probed: no answer may be pike's own 'cache dispatcher / upstream not found', nor 'location not found' where the reference router finds one; names with leading/trailing white space included. (4) two accepted configurations saved to a running instance in quick succession, the second one (which renames the cache, location and upstream the server refers to) while the first is still being applied: and a third save that only renames the upstream a location refers to: once settled, the server resolves everything. Non-trivial/distinct = (defect kind) / round-tripped configuration containing a nasty string / applied configuration."
	r.Assume = []string{"documented field kinds only; duplicate names and sub-second durations are accepted by pike and not judged"}
	rnd := rand.New(rand.NewSource(r.Seed))
	origins := []string{"http://127.0.0.1:3001", "http://127.0.0.1:3002"}
	ports := []int{18081, 18082, 18083}
	// ---- (1) validate
	nv := r.Pick(3000, 400000)
	for i := 0; i < nv && !r.TooMany(); i++ {
		cfg := c17ValidConfig(rnd, origins, ports, i%2 == 0)
		r.Eval(1)
		if err := cfg.Validate(); err != nil {
			r.Violate("valid_configuration_rejected", nil, "Validate rejects a configuration built from documented values: "+err.Error(), nil, cfg)
			continue
		}
		r.Add("valid_configurations_accepted", 1)
		d := c17Defects[rnd.Intn(len(c17Defects))]
		bad := deepCopyCfg(cfg)
		if strings.HasPrefix(d.name, "admin_") {
			bad.Admin = config.AdminConfig{User: "adminuser", Password: "secret-pw"}
		}
		d.fn(bad)
		err := bad.Validate()
		closed, why := c17Closed(bad)
		if strings.HasPrefix(d.name, "nearmiss_") && closed {
			// the altered reference names another existing entity (or nothing was altered): nothing to judge
			r.Add("near_miss_references_that_resolve", 1)
			continue
		}
		if err == nil {
			kind := "malformed_field_accepted"
			if !closed {
				kind = "dangling_reference_accepted"
			}
			r.Violate(kind, map[string]string{"defect": d.name}, fmt.Sprintf("Validate accepts a configuration with defect %s %s", d.name, why), nil, bad)
			continue
		}
		r.Add("defect_rejected:"+d.name, 1)
		r.Distinct("defect:" + d.name)
		if i%1000 == 0 {
			r.Sample(map[string]interface{}{"defect": d.name, "validate_error": err.Error()})
		}
	}
	// ---- (2) round trip through the file client
	path := filepath.Join(r.Scratch, "c17-roundtrip.yml")
	if err := config.InitDefaultClient(path); err != nil {
		r.Inconclusive("cannot init file client: " + err.Error())
		return
	}
	nr := r.Pick(1000, 100000)
	for i := 0; i < nr && !r.TooMany(); i++ {
		cfg := c17ValidConfig(rnd, origins, ports, true)
		want := normCfg(cfg)
		r.Eval(1)
		if err := config.Write(deepCopyCfg(cfg)); err != nil {
			r.Violate("write_failed", nil, "config.Write failed for a valid configuration: "+err.Error(), nil, cfg)
			continue
		}
		got, err := config.Read()
		if err != nil {
			r.Violate("saved_configuration_unreadable", nil, "config.Read failed after Write: "+err.Error(), nil, cfg)
			continue
		}
		if normCfg(got) != want {
			r.Violate("round_trip_differs", nil, "Read(Write(c)) differs from c", map[string]interface{}{"read_back": got}, cfg)
			continue
		}
		if !reflect.DeepEqual(len(got.Servers), len(cfg.Servers)) {
			r.Violate("round_trip_differs", nil, "server count differs", nil, cfg)
		}
		r.Add("round_trips", 1)
		if i%10 == 3 {
			// the stored document is replaced behind pike's back (an operator's editor, another instance),
			// then the same configuration is saved again: what is read back is what was saved
			other := c17ValidConfig(rnd, origins, ports, false)
			if data, err := yaml.Marshal(other); err == nil && os.WriteFile(path, data, 0600) == nil {
				if err := config.Write(deepCopyCfg(cfg)); err == nil {
					again, err := config.Read()
					r.Add("saves_after_the_stored_document_was_replaced_from_outside", 1)
					if err != nil || normCfg(again) != want {
						r.Violate("round_trip_differs", map[string]string{"sequence": "save_external_edit_save"}, "the same configuration saved again after the stored document had been replaced from outside is not what Read returns", map[string]interface{}{"read_back": again}, cfg)
						continue
					}
				}
			}
		}
		if i%20 == 0 {
			r.Distinct(fmt.Sprintf("rt:%d:%s", i, cfg.Caches[0].Name))
		}
	}
	config.Close()
	// ---- (3) applied to fresh real processes
	bin, err := hx.BuildPike(r.Scratch)
	if err != nil {
		fmt.Println(err)
		r.Inconclusive("cannot build pike")
		return
	}
	na := r.Pick(24, 1000)
	sem := make(chan struct{}, 8)
	var wg sync.WaitGroup
	seeds := make([]int64, na)
	for i := range seeds {
		seeds[i] = rnd.Int63()
	}
	wg.Add(1)
	go func() {
		defer wg.Done()
		for k := 0; k < r.Pick(1, 6); k++ {
			c17LiveSaves(r, bin, k)
		}
	}()
	for i := 0; i < na && !r.TooMany(); i++ {
		wg.Add(1)
		sem <- struct{}{}
		go func(i int) {
			defer wg.Done()
			defer func() { <-sem }()
			c17Applied(r, bin, i, rand.New(rand.NewSource(seeds[i])))
		}(i)
	}
	wg.Wait()
}

// c17LiveSaves: accepted configurations saved to a running instance in quick succession - the second one
// while the first is still being applied (it adds an upstream whose health endpoint is slow) and renaming
// everything the server refers to. Once the instance has settled, the last accepted configuration is the
// one applied: the server resolves its cache, location and upstream.
func c17LiveSaves(r *hx.Run, bin string, k int) {
	farm := hx.NewFarm(2, nil)
	defer farm.Close()
	farm.SetScript(func(f *hx.Fetch) *hx.Reply {
		return &hx.Reply{Status: 200, Header: [][2]string{{"Cache-Control", "max-age=60"}}, Body: hx.IdentBody(f, 20, "text")}
	})
	farm.Origins[1].PingDelay.Store(int64((400 + 200*time.Duration(k%3)) * time.Millisecond))
	addr := srvAddr(hx.FreePorts(1)[0])
	mk := func(gen string, slow bool) *config.PikeConfig {
		cfg := &config.PikeConfig{
			Caches:    []config.CacheConfig{{Name: "cache" + gen, Size: 100, HitForPass: "5m"}},
			Upstreams: []config.UpstreamConfig{{Name: "up" + gen, Servers: []config.UpstreamServerConfig{{Addr: farm.Origins[0].URL()}}}},
			Locations: []config.LocationConfig{{Name: "loc" + gen, Upstream: "up" + gen}},
			Servers:   []config.ServerConfig{{Addr: addr, Locations: []string{"loc" + gen}, Cache: "cache" + gen}},
		}
		if slow {
			cfg.Upstreams = append(cfg.Upstreams, config.UpstreamConfig{Name: "upslow", HealthCheck: "/ping", Servers: []config.UpstreamServerConfig{{Addr: farm.Origins[1].URL()}}})
		}
		return cfg
	}
	cfgs := []*config.PikeConfig{mk("a", false), mk("a", true), mk("b", false)}
	// a third save changes nothing but the name of the upstream the location refers to
	third := mk("b", false)
	third.Upstreams[0].Name = "uprenamed"
	third.Locations[0].Upstream = "uprenamed"
	cfgs = append(cfgs, third)
	for _, c := range cfgs {
		if err := c.Validate(); err != nil {
			r.InconclusiveCase("live-save configuration not accepted: " + err.Error())
			return
		}
	}
	p, err := hx.NewPike(bin, filepath.Join(r.Scratch, fmt.Sprintf("c17-live-%d", k)), cfgs[0], 0)
	if err != nil {
		r.InconclusiveCase("cannot prepare pike")
		return
	}
	defer p.Kill()
	if _, err := p.Start([]string{addr}, 30*time.Second); err != nil {
		r.InconclusiveCase("pike does not start: " + err.Error())
		return
	}
	lp := &c16Proc{pike: p}
	pad := 0
	begun := p.CountEvent("update.begin")
	if err := lp.save(cfgs[1], "inplace_write", &pad); err != nil {
		r.InconclusiveCase("cannot write the configuration: " + err.Error())
		return
	}
	if !hx.WaitUntil(10*time.Second, func() bool { return p.CountEvent("update.begin") > begun }) {
		r.InconclusiveCase("the save did not start an update")
		return
	}
	time.Sleep(time.Duration(150+100*(k%3)) * time.Millisecond)
	overlapped := p.CountEvent("update.done") < p.CountEvent("update.begin")
	before := p.CountEvent("update.done")
	if err := lp.save(cfgs[2], "inplace_write", &pad); err != nil {
		r.InconclusiveCase("cannot write the configuration: " + err.Error())
		return
	}
	if err := lp.waitApplied(before, "inplace_write"); err != nil {
		r.InconclusiveCase(err.Error())
		return
	}
	time.Sleep(300 * time.Millisecond)
	if overlapped {
		r.Add("live_saves_while_an_update_was_being_applied", 1)
	}
	before = p.CountEvent("update.done")
	if err := lp.save(cfgs[3], "inplace_write", &pad); err != nil {
		r.InconclusiveCase("cannot write the configuration: " + err.Error())
		return
	}
	if err := lp.waitApplied(before, "inplace_write"); err != nil {
		r.InconclusiveCase(err.Error())
		return
	}
	cl := hx.NewClient(nil)
	for n := 0; n < 4; n++ {
		res := cl.Do(hx.Req{Addr: addr, Host: "aa.example", URI: fmt.Sprintf("/live/%d/%d", k, n), Timeout: 10 * time.Second})
		r.Eval(1)
		r.Add("live_save_probes", 1)
		if res.Err != nil || res.Status != 200 {
			r.Violate("accepted_configuration_unresolved", map[string]string{"mode": "saved_while_previous_save_is_applied"}, fmt.Sprintf("after two accepted configurations were saved in quick succession the server answers %d %.120s (err %v)", res.Status, res.Raw, res.Err), res.Brief(), map[string]interface{}{"saved_first": cfgs[1], "saved_second": cfgs[2], "saved_last": cfgs[3]})
			return
		}
	}
	r.Distinct(fmt.Sprintf("live_saves:%d", k))
}

func c17Applied(r *hx.Run, bin string, i int, rnd *rand.Rand) {
	farm := hx.NewFarm(2, nil)
	defer farm.Close()
	farm.SetScript(func(f *hx.Fetch) *hx.Reply {
		return &hx.Reply{Status: 200, Header: [][2]string{{"Cache-Control", "max-age=60"}}, Body: hx.IdentBody(f, 20, "text")}
	})
	ports := hx.FreePorts(3)
	cfg := c17ValidConfig(rnd, []string{farm.Origins[0].URL(), farm.Origins[1].URL()}, ports, true)
	cfg.Admin = config.AdminConfig{}
	if err := cfg.Validate(); err != nil {
		return
	}
	dir := filepath.Join(r.Scratch, fmt.Sprintf("c17-%d", i))
	p, err := hx.NewPike(bin, dir, cfg, 0)
	if err != nil {
		r.InconclusiveCase("cannot prepare pike")
		return
	}
	defer p.Kill()
	var addrs []string
	for _, s := range cfg.Servers {
		addrs = append(addrs, s.Addr)
	}
	if _, err := p.Start(addrs, 30*time.Second); err != nil {
		r.Violate("accepted_configuration_does_not_start", nil, "pike does not serve an accepted configuration: "+err.Error(), nil, cfg)
		return
	}
	cl := hx.NewClient(nil)
	for _, s := range cfg.Servers {
		for _, h := range []string{"aa.example", "bb.example", "cc.example"} {
			for _, u := range []string{"/api/x", "/static/y", "/other"} {
				uri := fmt.Sprintf("%s?i=%d", u, i)
				res := cl.Do(hx.Req{Addr: s.Addr, Host: h, URI: uri, Timeout: 10 * time.Second})
				r.Eval(1)
				r.Add("applied_probes", 1)
				// reference router over the server's own locations
				var locs []locSpec
				for _, l := range cfg.Locations {
					locs = append(locs, locSpec{Name: l.Name, Hosts: l.Hosts, Prefixes: l.Prefixes})
				}
				want := refRoute(locs, s.Locations, h, uri)
				body := string(res.Raw)
				cs := map[string]interface{}{"config": cfg, "server": s.Addr, "host": h, "uri": uri}
				switch {
				case res.Err != nil:
					r.Violate("applied_probe_failed", nil, "request failed: "+res.Err.Error(), nil, cs)
				case strings.Contains(body, "cache dispatcher not found") || strings.Contains(body, "upstream not found"):
					r.Violate("accepted_configuration_unresolved", nil, "an accepted configuration leaves a server without "+body, res.Brief(), cs)
				case strings.Contains(body, "location not found") && len(want) != 0:
					r.Violate("accepted_configuration_unresolved", nil, "location not found although the reference router finds one", res.Brief(), cs)
				case len(want) != 0 && res.Status != 200:
					r.Violate("applied_probe_failed", nil, fmt.Sprintf("status %d for a routable request: %.100s", res.Status, body), res.Brief(), cs)
				}
			}
		}
	}
	r.Add("applied_configurations", 1)
	r.Distinct(fmt.Sprintf("applied:%d", i))
}

func init() { register("C17", "exploration", c17) }
