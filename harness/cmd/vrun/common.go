package main

import (
	"fmt"
	"os"
	"os/exec"
	"path/filepath"
	"regexp"
	"sort"
	"strings"
	"sync/atomic"
	"time"

	"github.com/vicanso/pike/cache"
	"verifh/hx"
)

// watchEvictions counts entries leaving the named cache (evictions and removals)
func watchEvictions(cacheName string) *atomic.Int64 {
	n := &atomic.Int64{}
	if d := cache.GetDispatcher(cacheName); d != nil {
		d.VerifOnEvicted(func(int, string) { n.Add(1) })
	}
	return n
}

var raceFrameRe = regexp.MustCompile(`^\s+(github\.com/vicanso/pike/.+)\(`)
var lineNoRe = regexp.MustCompile(`:\d+( \+0x[0-9a-f]+)?$`)

// raceReport one parsed data race report
type raceReport struct {
	Entry [2]string // outermost pike frames of the two accesses
	Stack string    // line-stripped stacks
	Raw   string
}

var raceInitFrameRe = regexp.MustCompile(`(^|[./])init(\.\d+)?\(\)$`)
var raceByGoroutineRe = regexp.MustCompile(`by goroutine (\d+):`)

// raceFrames the function frames of one paragraph of a race report (header and file lines left out)
func raceFrames(para string) (header string, frames []string) {
	for _, l := range strings.Split(para, "\n") {
		t := strings.TrimSpace(l)
		switch {
		case t == "" || t == "WARNING: DATA RACE":
		case strings.HasSuffix(t, ":") && !strings.HasSuffix(t, "()"):
			header = t
		case strings.HasPrefix(t, "/"):
		default:
			frames = append(frames, t)
		}
	}
	return
}

// raceContradictsMemoryModel: one access was made by the main goroutine while it ran a package's init function, the
// other by a goroutine that was started from package main's ordinary (non-init) code. Every init function has
// finished before main.main starts and a go statement happens before the goroutine it starts, so the two
// accesses are ordered: such a report cannot be a data race of the program. It is counted and shown, not judged.
func raceContradictsMemoryModel(block string) bool {
	paras := strings.Split(strings.TrimSpace(block), "\n\n")
	if len(paras) < 3 {
		return false
	}
	initSide, other := -1, ""
	for pi := 0; pi < 2; pi++ {
		h, fr := raceFrames(paras[pi])
		if len(fr) == 0 {
			return false
		}
		if strings.Contains(h, "by main goroutine") && raceInitFrameRe.MatchString(fr[len(fr)-1]) {
			initSide = pi
		} else if m := raceByGoroutineRe.FindStringSubmatch(h); m != nil {
			other = m[1]
		}
	}
	if initSide < 0 || other == "" {
		return false
	}
	for _, p := range paras[2:] {
		h, fr := raceFrames(p)
		if strings.HasPrefix(h, "Goroutine "+other+" ") && strings.HasSuffix(h, "created at:") && len(fr) > 0 {
			bottom := fr[len(fr)-1]
			return strings.HasPrefix(bottom, "main.") && !raceInitFrameRe.MatchString(bottom)
		}
	}
	return false
}

// raceSetAside the reports of this process that raceContradictsMemoryModel put aside
var raceSetAside []string

// parseRaceLogs reads the race detector logs of this process (GORACE log_path=<scratch>/race)
func parseRaceLogs(scratch string) (raw int, dedup map[string]raceReport) {
	dedup = map[string]raceReport{}
	files, _ := filepath.Glob(filepath.Join(scratch, "race*"))
	for _, f := range files {
		buf, err := os.ReadFile(f)
		if err != nil {
			continue
		}
		blocks := strings.Split(string(buf), "==================")
		for _, b := range blocks {
			if !strings.Contains(b, "WARNING: DATA RACE") {
				continue
			}
			raw++
			if raceContradictsMemoryModel(b) {
				raceSetAside = append(raceSetAside, b)
				continue
			}
			// the two access stacks are the first two paragraphs
			paras := strings.Split(strings.TrimSpace(b), "\n\n")
			var entry []string
			var stripped []string
			pike := false
			for pi, p := range paras {
				if pi >= 2 {
					break
				}
				outer := ""
				for _, l := range strings.Split(p, "\n") {
					if m := raceFrameRe.FindStringSubmatch(l); m != nil {
						outer = m[1]
						pike = true
					}
					if strings.HasPrefix(strings.TrimSpace(l), "/") {
						continue
					}
					stripped = append(stripped, lineNoRe.ReplaceAllString(strings.TrimSpace(l), ""))
				}
				entry = append(entry, outer)
			}
			if !pike {
				continue
			}
			for len(entry) < 2 {
				entry = append(entry, "")
			}
			sort.Strings(entry)
			rep := raceReport{Entry: [2]string{entry[0], entry[1]}, Stack: strings.Join(stripped, "|"), Raw: b}
			key := entry[0] + " <-> " + entry[1]
			if _, ok := dedup[key]; !ok {
				dedup[key] = rep
			}
		}
	}
	return
}

// checkRaceLog turns de-duplicated race reports with a pike frame into violations
func checkRaceLog(r *hx.Run) {
	if os.Getenv("VERIF_RACE") == "" {
		return
	}
	raceSetAside = nil
	raw, dedup := parseRaceLogs(r.Scratch)
	if n := len(raceSetAside); n > 0 {
		// (see raceContradictsMemoryModel)
		r.Add("race_reports_ordered_by_the_memory_model_not_judged", int64(n))
		txt := raceSetAside[0]
		if len(txt) > 3000 {
			txt = txt[:3000]
		}
		r.Set("race_report_not_judged_sample", txt)
		fmt.Printf("  race report set aside (an init-time write of the main goroutine against a goroutine started from main's own code): %d\n", n)
	}
	r.Add("race_reports_raw", int64(raw))
	r.Add("race_reports_dedup", int64(len(dedup)))
	for key, rep := range dedup {
		txt := rep.Raw
		if len(txt) > 6000 {
			txt = txt[:6000]
		}
		r.Violate("data_race", map[string]string{"pair": key}, "data race with a pike frame: "+key, txt, nil)
	}
	_ = fmt.Sprint
}

// entryState reads the hooked entry state; ok=false when the entry lock could not be taken within
// 3 s (somebody holds it at what should be quiescence)
func entryState(cacheName string, key string) (st cache.VerifEntry, ok bool) {
	d := cache.GetDispatcher(cacheName)
	if d == nil {
		return st, true
	}
	ch := make(chan cache.VerifEntry, 1)
	go func() { ch <- d.VerifEntryState([]byte(key)) }()
	select {
	case st = <-ch:
		return st, true
	case <-time.After(3 * time.Second):
		return st, false
	}
}

var hangCount atomic.Int64

// hangSeen: violations that each cost a watchdog period stop the run after the third one
func hangSeen(r *hx.Run) {
	if hangCount.Add(1) >= 3 {
		r.Abort()
	}
}

// harnessFailure: the child never ran (exec error) or ended normally without leaving its result file
func harnessFailure(runErr, readErr error) bool {
	if runErr != nil {
		_, exited := runErr.(*exec.ExitError)
		return !exited
	}
	return readErr != nil
}

// purgeDirect calls cache.RemoveHTTPCache the way the admin handler does, under a watchdog: a purge that does
// not come back (it must never wait for a fetch or for a request) is reported instead of hanging the check.
func purgeDirect(r *hx.Run, cacheName, key string, params map[string]string) bool {
	done := make(chan struct{})
	go func() { defer close(done); cache.RemoveHTTPCache(cacheName, []byte(key)) }()
	select {
	case <-done:
		return true
	case <-time.After(20 * time.Second):
		hangSeen(r)
		r.Violate("purge_blocked", params, "a purge of the key did not return within 20 s", map[string]interface{}{"key": key, "blocked_goroutines": pikeGoroutines()}, nil)
		return false
	}
}

// completionsDone: how many fetch completions (Cacheable / HitForPass) have run to their end - both the store
// write and the release of the waiters, in whichever order pike performs them
func completionsDone(p *hx.Points) int64 {
	m := func(a, b int64) int64 {
		if a < b {
			return a
		}
		return b
	}
	return m(p.Count("cacheable.saved"), p.Count("cacheable.released")) + m(p.Count("hfp.saved"), p.Count("hfp.released"))
}
