package main

import (
	"fmt"
	"math/rand"
	"net/http"
	"net/url"
	"path/filepath"
	"strings"
	"sync"
	"sync/atomic"
	"time"

	"github.com/vicanso/pike/cache"
	"github.com/vicanso/pike/config"
	"verifh/hx"
)

// C06: cache keys isolate method, host and the full request URI.

type c06Key struct {
	Method, Host, URI string
}

func c06Universe(rnd *rand.Rand, zones uint64) []c06Key {
	var keys []c06Key
	hosts := []string{"a.example", "b.example", "a.example.org", "a.example:8080", "A.example"}
	long := "/long/" + strings.Repeat("x", 1800)
	uris := []string{"/p/1", "/p/1/", "/p/11", "/p/1?x=1", "/p/1?x=2", "/p/1?x=1&y=", "/p/1?x=1&y", "/P/1", "/p/%31", "/p/1?", "/p/1?x=%31", long + "a", long + "b", long + "a?q=1", "/", "/?"}
	for _, h := range hosts {
		for _, u := range uris {
			for _, m := range []string{"GET", "HEAD"} {
				keys = append(keys, c06Key{m, h, u})
			}
		}
	}
	// request-URIs longer than the largest key the badger store takes (65000 bytes), differing in the last byte only
	giant := "/giant/" + strings.Repeat("g", 66000)
	for _, m := range []string{"GET", "HEAD"} {
		keys = append(keys, c06Key{m, "a.example", giant + "a"}, c06Key{m, "a.example", giant + "b"})
	}
	// forced collisions: many keys of one shard
	target := uint64(rnd.Intn(int(zones)))
	n := 0
	for i := 0; n < 60; i++ {
		k := c06Key{"GET", "a.example", fmt.Sprintf("/s/%d", i)}
		if cache.MemHash([]byte(k.Method+" "+k.Host+" "+k.URI))%zones == target {
			keys = append(keys, k)
			n++
		}
	}
	return keys
}

func c06(r *hx.Run) {
	r.Rule = "request targets with raw non-UTF-8 bytes differing only inside such runs on the store-backed cache (fetched, hit, evicted, reloaded); every resource carries the same strong ETag, every seventh a body of exactly 1500 bytes; a quarter of the requests carry X-Forwarded-Host/Forwarded/X-Original-Url headers; universe of 160 near-identical keys (paths differing by a slash/digit/case/escape, queries differing in one byte or only by '?', five hosts incl. one with a port and one differing in case only, GET vs HEAD, 1.8 kB URIs differing in the last byte, 66 kB URIs - beyond the largest key the badger store takes - differing in the last byte) plus 60 keys pre-selected with MemHash to share one shard; caches of size 8, 24 and 64 plus one of size 16 backed by a store (constant eviction, re-creation and reload from the store; lifetime 1 s on the real clock, so entries are also refetched after expiry during the run); 32 concurrent clients with hot/cold mix; every 2xx response must echo exactly the requester's method, Host and request-URI (body identification line and echo headers written by the origin). Plus a dispatcher-level run over one million generated keys checking entry identity. Non-trivial/distinct = distinct key that was answered at least once after having been evicted."
	r.Assume = []string{"-race build (implies checkptr for the zero-copy key string)", "the origin echoes what it saw; a mismatch between echo and request can only come from pike serving another key's entry"}
	rnd := rand.New(rand.NewSource(r.Seed))
	sizes := []int{8, 24, 64, 16}
	storeIdx := 3 // the last cache is backed by a store: evicted entries come back through it
	ports := hx.FreePorts(len(sizes))
	w := newWorldCfg(r, 1, false, func(origins []string) *config.PikeConfig {
		cfg := &config.PikeConfig{
			Upstreams: []config.UpstreamConfig{{Name: "u", Servers: []config.UpstreamServerConfig{{Addr: origins[0]}}}},
			Locations: []config.LocationConfig{{Name: "l", Upstream: "u"}},
		}
		for i, s := range sizes {
			name := fmt.Sprintf("c06_%d", s)
			cc := config.CacheConfig{Name: name, Size: s, HitForPass: "5m"}
			if i == storeIdx {
				cc.Name = "c06_store"
				name = cc.Name
				// pike's own badger store (in the scratch directory): the store code itself is in the loop
				cc.Store = "badger://" + filepath.Join(r.Scratch, "c06-badger")
			}
			cfg.Caches = append(cfg.Caches, cc)
			cfg.Servers = append(cfg.Servers, config.ServerConfig{Addr: srvAddr(ports[i]), Locations: []string{"l"}, Cache: name})
		}
		return cfg
	})
	defer w.Farm.Close()
	w.Farm.SetScript(func(f *hx.Fetch) *hx.Reply {
		// every resource carries the same strong validator (as upstreams deriving it from mtime and size
		// do); every seventh one is a compressible body of exactly 1500 bytes, so that many different keys
		// share validator and length
		body := hx.IdentBody(f, 40, "text")
		if (len(f.URI)+len(f.Host))%7 == 0 {
			body = hx.IdentBodyTotal(f, 1500, "text")
		}
		return &hx.Reply{Status: 200, Header: [][2]string{{"Cache-Control", "max-age=1"}, {"Content-Type", "text/plain"}, {"ETag", `"5f3e-960"`},
			{"X-Echo-Method", f.Method}, {"X-Echo-Host", f.Host}, {"X-Echo-Uri", f.URI}}, Body: body}
	})
	keys := c06Universe(rnd, 8)
	var evictions atomic.Int64
	evictedOnce := sync.Map{}
	for i, s := range sizes {
		name := fmt.Sprintf("c06_%d", s)
		if i == storeIdx {
			name = "c06_store"
		}
		d := cache.GetDispatcher(name)
		s := s
		d.VerifOnEvicted(func(shard int, key string) {
			evictions.Add(1)
			evictedOnce.Store(fmt.Sprintf("%d|%s", s, key), true)
		})
	}
	total := r.Pick(40000, 1500000)
	clients := 32
	per := total / clients
	var wg sync.WaitGroup
	seeds := make([]int64, clients)
	for i := range seeds {
		seeds[i] = rnd.Int63()
	}
	var hits, fetches, requests, forwardedHdr atomic.Int64
	answeredAfterEviction := sync.Map{}
	for c := 0; c < clients; c++ {
		wg.Add(1)
		go func(c int) {
			defer wg.Done()
			lr := rand.New(rand.NewSource(seeds[c]))
			for i := 0; i < per && !r.TooMany(); i++ {
				var k c06Key
				if lr.Intn(3) == 0 {
					k = keys[lr.Intn(12)] // hot
				} else {
					k = keys[lr.Intn(len(keys))]
				}
				si := lr.Intn(len(sizes))
				rq := hx.Req{Method: k.Method, Addr: srvAddr(ports[si]), Host: k.Host, URI: k.URI, Proc: c}
				if lr.Intn(4) == 0 {
					// headers a front proxy (or anybody) may add: they are no part of the key, the Host is
					rq.Header = http.Header{"X-Forwarded-Host": {"front.example"}, "X-Forwarded-For": {"10.1.2.3"}, "Forwarded": {"host=front.example;proto=https"}, "X-Original-Url": {"/c06/other"}}
					forwardedHdr.Add(1)
				}
				res := w.Cl.Do(rq)
				requests.Add(1)
				if res.Err != nil || res.Status != 200 {
					r.Violate("request_failed", nil, fmt.Sprintf("status %d err %v", res.Status, res.Err), res.Brief(), k)
					continue
				}
				em, eh, eu := res.Header.Get("X-Echo-Method"), res.Header.Get("X-Echo-Host"), res.Header.Get("X-Echo-Uri")
				if em != k.Method || eh != k.Host || eu != k.URI {
					r.Violate("response_of_another_key", map[string]string{"via": "headers"},
						fmt.Sprintf("requested %s %s %s but the stored response belongs to %s %s %s", k.Method, k.Host, k.URI, em, eh, eu), res.Brief(), k)
					continue
				}
				if k.Method == "GET" {
					if !res.HasIdent || !res.Ident.Intact || res.Ident.Method != k.Method || res.Ident.Host != k.Host || res.Ident.URI != k.URI {
						r.Violate("response_of_another_key", map[string]string{"via": "body"},
							fmt.Sprintf("requested %s %s %s but the body identifies %s %s %s (intact=%v)", k.Method, k.Host, k.URI, res.Ident.Method, res.Ident.Host, res.Ident.URI, res.Ident.Intact), res.Brief(), k)
						continue
					}
				} else if len(res.Raw) != 0 {
					r.Violate("head_with_body", nil, "HEAD answered with a body", res.Brief(), k)
				}
				if res.Label == "hit" {
					hits.Add(1)
				} else {
					fetches.Add(1)
				}
				kk := fmt.Sprintf("%d|%s %s %s", sizes[si], k.Method, k.Host, k.URI)
				if _, ok := evictedOnce.Load(kk); ok {
					answeredAfterEviction.Store(kk, true)
				}
			}
		}(c)
	}
	wg.Wait()
	r.Eval(requests.Load())
	r.Add("requests", requests.Load())
	r.Add("requests_with_forwarded_host_headers", forwardedHdr.Load())
	r.Add("hits", hits.Load())
	r.Add("fetches", fetches.Load())
	r.Add("evictions", evictions.Load())
	r.Add("distinct_keys", int64(len(keys)*len(sizes)))
	answeredAfterEviction.Range(func(k, _ interface{}) bool {
		r.Distinct(k.(string))
		return true
	})
	r.Sample(map[string]interface{}{"keys_sample": keys[:8], "forced_same_shard_sample": keys[len(keys)-4:]})
	// request targets with raw bytes that are no valid UTF-8 (legacy encodings such as GBK in a query),
	// differing only inside such byte runs, on the cache backed by a store: fetched, hit, pushed out of the
	// LRU and asked again. net/http's client would escape them, so they go out by hand.
	{
		addr := srvAddr(ports[storeIdx])
		rawURIs := []string{"/c06raw/s?wd=\xb1\xb1\xbe\xa9", "/c06raw/s?wd=\xb9\xe3\xd6\xdd", "/c06raw/s?wd=\xc9\xee\xdb\xda", "/c06raw/s?wd=\xff\xfe", "/c06raw/\xe4\xb8/x", "/c06raw/\xe4\xb9/x"}
		ask := func(u, phase string) bool {
			raw := fmt.Sprintf("GET %s HTTP/1.1\r\nHost: raw.example\r\n\r\n", u)
			rr := hx.RawRequest(addr, []byte(raw), "GET", false, 10*time.Second)
			r.Add("requests_with_raw_non_utf8_targets", 1)
			if rr.Err != nil || rr.Status != 200 {
				r.Violate("request_failed", map[string]string{"target": "raw_non_utf8"}, fmt.Sprintf("status %d err %v", rr.Status, rr.Err), nil, map[string]interface{}{"uri": fmt.Sprintf("%q", u), "phase": phase})
				return false
			}
			// the body names the request it answers (header values with such bytes do not survive the
			// persisted record - the known finding of C09 - so the body is what is compared); the origin sees
			// the target as the proxy re-encodes it: compare after unescaping
			id, ok := hx.ParseIdent(rr.Body)
			eu, _ := url.PathUnescape(strings.ReplaceAll(id.URI, "+", "%2B"))
			if !ok || !id.Intact || eu != u {
				r.Violate("response_of_another_key", map[string]string{"via": "body", "target": "raw_non_utf8"}, fmt.Sprintf("requested %q (%s) but the body identifies %q (intact=%v)", u, phase, id.URI, id.Intact), nil, map[string]interface{}{"uri": fmt.Sprintf("%q", u), "label": rr.Header.Get("X-Status")})
				return false
			}
			return true
		}
		okAll := true
		for round := 0; round < 3 && okAll; round++ {
			for _, u := range rawURIs {
				if !ask(u, "fetch_or_hit") || !ask(u, "hit") {
					okAll = false
					break
				}
			}
			for k := 0; k < 40 && okAll; k++ {
				w.Cl.Get(addr, "raw.example", fmt.Sprintf("/c06raw/fill/%d/%d", round, k))
			}
		}
	}
	// store-backed cache, step by step: fill, let everything expire, refetch under concurrency (records
	// are written again), evict, read back through the store
	{
		addr := srvAddr(ports[storeIdx])
		check := func(phase string, k c06Key, res *hx.Result) {
			requests.Add(1)
			if res.Err != nil || res.Status != 200 {
				r.Violate("request_failed", nil, fmt.Sprintf("%s: status %d err %v", phase, res.Status, res.Err), res.Brief(), k)
				return
			}
			if em, eh, eu := res.Header.Get("X-Echo-Method"), res.Header.Get("X-Echo-Host"), res.Header.Get("X-Echo-Uri"); em != k.Method || eh != k.Host || eu != k.URI {
				r.Violate("response_of_another_key", map[string]string{"via": "headers", "phase": phase}, fmt.Sprintf("requested %s %s %.80s but the stored response belongs to %s %s %.80s", k.Method, k.Host, k.URI, em, eh, eu), res.Brief(), k)
			}
		}
		all := func(phase string, ks []c06Key) {
			var wg sync.WaitGroup
			sem := make(chan struct{}, 24)
			for _, k := range ks {
				wg.Add(1)
				sem <- struct{}{}
				go func(k c06Key) {
					defer wg.Done()
					defer func() { <-sem }()
					check(phase, k, w.Cl.Do(hx.Req{Method: k.Method, Addr: addr, Host: k.Host, URI: k.URI}))
				}(k)
			}
			wg.Wait()
		}
		rounds := r.Pick(3, 40)
		for round := 0; round < rounds && !r.TooMany(); round++ {
			ks := make([]c06Key, 0, 48)
			for i := 0; i < 48; i++ {
				ks = append(ks, c06Key{"GET", "s.example", fmt.Sprintf("/store/%d/%d", round, i)})
			}
			all("fill", ks)
			time.Sleep(2100 * time.Millisecond) // lifetime is 1 s: everything has expired
			all("refetch_after_expiry", ks)
			all("reload_after_eviction", ks) // 48 keys in 16 slots: most were evicted and come back through the store
			all("reload_after_eviction", ks)
			r.Add("store_refetch_rounds", 1)
		}
	}
	// dispatcher level: entry identity per key string
	d := cache.NewDispatcher(cache.DispatcherOption{Name: "ident", Size: 4000000})
	n := r.Pick(300000, 1000000)
	seen := make(map[string]interface{}, n)
	ptrs := make(map[interface{}]string, n)
	for i := 0; i < n; i++ {
		var key string
		switch i % 4 {
		case 0:
			key = fmt.Sprintf("GET h%d /k/%d", i%7, i)
		case 1:
			key = fmt.Sprintf("HEAD h%d /k/%d", i%7, i-1)
		case 2:
			key = fmt.Sprintf("GET h%d /k/%d?", i%7, i-2)
		default:
			key = fmt.Sprintf("GET h%d /k/%d?a=%d", i%7, i-3, lrand(i))
		}
		hc := d.GetHTTPCache([]byte(key))
		if prev, ok := seen[key]; ok && prev != interface{}(hc) {
			r.Violate("entry_identity", nil, "the same key resolved to two entries without eviction", key, nil)
			break
		}
		if other, ok := ptrs[hc]; ok && other != key {
			r.Violate("entry_shared_between_keys", nil, fmt.Sprintf("keys %q and %q share one entry", other, key), nil, nil)
			break
		}
		seen[key] = hc
		ptrs[hc] = key
	}
	// second pass: every key still resolves to its own entry
	cnt := 0
	for key, hc := range seen {
		if interface{}(d.GetHTTPCache([]byte(key))) != hc {
			r.Violate("entry_identity", nil, "a key resolved to a different entry on the second lookup", key, nil)
			break
		}
		cnt++
		if cnt >= 200000 {
			break
		}
	}
	r.Add("dispatcher_level_keys", int64(len(seen)))
	r.Eval(int64(len(seen)))
	checkRaceLog(r)
}

func lrand(i int) int { return (i*2654435761 + 12345) % 9973 }

func init() { register("C06", "exploration", c06) }
