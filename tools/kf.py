#!/usr/bin/env python3
"""kf.py fixed|known <property> <id> <kind> <commit-msg-substring|-> <text> [k=v ...]  — maintain KNOWN_FINDINGS.json (developer tool, never run by checks)"""
import json,subprocess,sys,os
HERE=os.path.dirname(os.path.dirname(os.path.abspath(__file__)))
p=os.path.join(HERE,'KNOWN_FINDINGS.json')
k=json.load(open(p))
state,prop,fid,kind,msg,text=sys.argv[1:7]
match={"kind":kind}
for kv in sys.argv[7:]:
    a,b=kv.split('=',1); match[a]=b
e={"property":prop,"id":fid,"state":state,"match":match,"text":("fixed: property=%s "%prop if state=="fixed" else "")+text}
if msg!='-':
    out=subprocess.run(["git","-C","/repo","log","--format=%h %s"],capture_output=True,text=True).stdout
    for l in out.splitlines():
        if msg in l: e["commit"]=l.split()[0]
    assert "commit" in e, "commit not found"
k=[x for x in k if not (x["property"]==prop and x["id"]==fid)]+[e]
json.dump(k,open(p,'w'),indent=1)
print("ok",len(k),"entries")
