package main

import (
	"encoding/json"
	"fmt"
	"math/rand"
	"net"
	"net/url"
	"os"
	"path/filepath"
	"sort"
	"strconv"
	"strings"
	"sync"
	"sync/atomic"
	"time"

	"github.com/vicanso/pike/config"
	"gopkg.in/yaml.v2"
	"verifh/hx"
)

// C16: live reconfiguration equals a fresh start and disturbs nothing unchanged.
// Two real pike processes: L is updated step by step (admin PUT /config or an in-place write of the
// file), F is started freshly on the final configuration; the same probe suite runs against both.

type c16Step struct {
	Op     string `json:"op"`
	Method string `json:"apply_method"` // admin_put | inplace_write
}

type c16Seq struct {
	Directed             string    `json:"directed,omitempty"` // "" random | best_override_then_remove | server_remove_then_readd
	ID                   int       `json:"id"`
	Steps                []c16Step `json:"steps"`
	OverrodeBestAndBack  bool      `json:"overrode_bestCompression_then_removed_it"`
	ReAddedServer        bool      `json:"removed_then_re_added_a_server"`
	CheckRemovedListener bool      `json:"check_removed_listener"`
}

// logical config with symbolic server slots; ports are assigned per process
type c16Cfg struct {
	cfg *config.PikeConfig // server Addr holds the slot name "S0".."S2"
}

func c16Initial(origins []string) *config.PikeConfig {
	return &config.PikeConfig{
		Compresses: []config.CompressConfig{{Name: "cmpA", Levels: map[string]uint{"gzip": 1, "br": 1}}},
		Caches:     []config.CacheConfig{{Name: "c0", Size: 5000, HitForPass: "5m"}, {Name: "c1", Size: 5000, HitForPass: "5m"}},
		Upstreams: []config.UpstreamConfig{
			{Name: "u0", HealthCheck: "/ping", Servers: []config.UpstreamServerConfig{{Addr: origins[0]}}},
			{Name: "u1", Servers: []config.UpstreamServerConfig{{Addr: origins[1]}}},
		},
		Locations: []config.LocationConfig{
			{Name: "l0", Upstream: "u0", Prefixes: []string{"/p0"}},
			{Name: "l1", Upstream: "u1", Prefixes: []string{"/p1"}},
		},
		Servers: []config.ServerConfig{
			{Addr: "S0", Locations: []string{"l0"}, Cache: "c0"},
			{Addr: "S1", Locations: []string{"l0", "l1"}, Cache: "c1", Compress: "cmpA"},
		},
	}
}

func findSrv(c *config.PikeConfig, slot string) *config.ServerConfig {
	for i := range c.Servers {
		if c.Servers[i].Addr == slot {
			return &c.Servers[i]
		}
	}
	return nil
}

func hasName(list []string, n string) bool {
	for _, x := range list {
		if x == n {
			return true
		}
	}
	return false
}

// c16Mutate applies one random valid mutation and returns its description ("" = nothing applicable)
func c16Mutate(rnd *rand.Rand, c *config.PikeConfig, origins []string, seq *c16Seq, removedSlots map[string]bool) string {
	ops := []string{"srv_minlen_set", "srv_minlen_unset", "srv_filter_set", "srv_filter_unset", "srv_compress_set", "srv_compress_unset", "srv_cache_switch", "srv_locations_change",
		"srv_add", "srv_remove", "loc_add", "loc_remove", "loc_rewrite_set", "loc_rewrite_unset", "loc_headers_set", "loc_headers_unset", "loc_query_set", "loc_query_unset", "loc_upstream_switch",
		"up_add", "up_servers_change", "up_ae_set", "up_ae_unset", "up_h2c_set", "up_h2c_unset", "cmp_add", "cmp_modify", "cmp_drop_level", "cmp_remove", "best_override", "best_remove", "srv_readd"}
	for try := 0; try < 40; try++ {
		op := ops[rnd.Intn(len(ops))]
		slot := []string{"S1", "S2"}[rnd.Intn(2)]
		s := findSrv(c, slot)
		var loc *config.LocationConfig
		if len(c.Locations) > 0 {
			loc = &c.Locations[rnd.Intn(len(c.Locations))]
		}
		switch op {
		case "srv_minlen_set":
			if s != nil {
				s.CompressMinLength = []string{"100", "2kb", "500"}[rnd.Intn(3)]
				return op + " " + slot + " " + s.CompressMinLength
			}
		case "srv_minlen_unset":
			if s != nil && s.CompressMinLength != "" {
				s.CompressMinLength = ""
				return op + " " + slot
			}
		case "srv_filter_set":
			if s != nil {
				s.CompressContentTypeFilter = []string{"text|custom", "image"}[rnd.Intn(2)]
				return op + " " + slot + " " + s.CompressContentTypeFilter
			}
		case "srv_filter_unset":
			if s != nil && s.CompressContentTypeFilter != "" {
				s.CompressContentTypeFilter = ""
				return op + " " + slot
			}
		case "srv_compress_set":
			if s != nil && len(c.Compresses) > 0 {
				s.Compress = c.Compresses[rnd.Intn(len(c.Compresses))].Name
				return op + " " + slot + " " + s.Compress
			}
		case "srv_compress_unset":
			if s != nil && s.Compress != "" {
				s.Compress = ""
				return op + " " + slot
			}
		case "srv_cache_switch":
			if s != nil {
				s.Cache = []string{"c0", "c1"}[rnd.Intn(2)]
				return op + " " + slot + " " + s.Cache
			}
		case "srv_locations_change":
			if s != nil {
				var names []string
				for _, l := range c.Locations {
					if rnd.Intn(2) == 0 {
						names = append(names, l.Name)
					}
				}
				if len(names) == 0 {
					names = []string{c.Locations[0].Name}
				}
				s.Locations = names
				return op + " " + slot + " " + strings.Join(names, ",")
			}
		case "srv_add":
			if findSrv(c, "S2") == nil && !removedSlots["S2"] {
				c.Servers = append(c.Servers, config.ServerConfig{Addr: "S2", Locations: []string{c.Locations[rnd.Intn(len(c.Locations))].Name}, Cache: []string{"c0", "c1"}[rnd.Intn(2)]})
				return op + " S2"
			}
		case "srv_readd":
			if false && findSrv(c, "S2") == nil && removedSlots["S2"] {
				c.Servers = append(c.Servers, config.ServerConfig{Addr: "S2", Locations: []string{c.Locations[0].Name}, Cache: "c0"})
				seq.ReAddedServer = true
				return op + " S2"
			}
		case "srv_remove":
			if s != nil && slot == "S2" {
				var keep []config.ServerConfig
				for _, x := range c.Servers {
					if x.Addr != "S2" {
						keep = append(keep, x)
					}
				}
				c.Servers = keep
				removedSlots["S2"] = true
				return op + " S2"
			}
		case "loc_add":
			if len(c.Locations) < 4 {
				n := fmt.Sprintf("l%d", len(c.Locations))
				for _, l := range c.Locations {
					if l.Name == n {
						n = ""
					}
				}
				if n != "" {
					c.Locations = append(c.Locations, config.LocationConfig{Name: n, Upstream: c.Upstreams[rnd.Intn(len(c.Upstreams))].Name, Prefixes: []string{"/p" + n[1:]}})
					return op + " " + n
				}
			}
		case "loc_remove":
			if len(c.Locations) > 2 {
				last := c.Locations[len(c.Locations)-1].Name
				used := false
				for _, sv := range c.Servers {
					if hasName(sv.Locations, last) {
						used = true
					}
				}
				if !used {
					c.Locations = c.Locations[:len(c.Locations)-1]
					return op + " " + last
				}
			}
		case "loc_rewrite_set":
			if loc != nil && loc.Name != "l0" {
				// the same pattern with one of several replacements (also replacing an earlier one)
				repl := []string{"/rw/$1", "/v2/$1", "/$1"}[rnd.Intn(3)]
				loc.Rewrites = []string{loc.Prefixes[0] + "/*:" + repl}
				return op + " " + loc.Name + " " + repl
			}
		case "loc_rewrite_unset":
			if loc != nil && len(loc.Rewrites) > 0 {
				loc.Rewrites = nil
				return op + " " + loc.Name
			}
		case "loc_headers_set":
			if loc != nil && loc.Name != "l0" {
				loc.ReqHeaders = []string{"X-Added-Req:v" + fmt.Sprint(rnd.Intn(3))}
				loc.RespHeaders = []string{"X-Added-Resp:w" + fmt.Sprint(rnd.Intn(3))}
				return op + " " + loc.Name
			}
		case "loc_headers_unset":
			if loc != nil && len(loc.ReqHeaders) > 0 {
				loc.ReqHeaders, loc.RespHeaders = nil, nil
				return op + " " + loc.Name
			}
		case "loc_query_set":
			if loc != nil && loc.Name != "l0" {
				loc.QueryStrings = []string{"added:q" + fmt.Sprint(rnd.Intn(3))}
				return op + " " + loc.Name
			}
		case "loc_query_unset":
			if loc != nil && len(loc.QueryStrings) > 0 {
				loc.QueryStrings = nil
				return op + " " + loc.Name
			}
		case "loc_upstream_switch":
			if loc != nil && loc.Name != "l0" {
				loc.Upstream = c.Upstreams[rnd.Intn(len(c.Upstreams))].Name
				return op + " " + loc.Name + " " + loc.Upstream
			}
		case "up_add":
			if len(c.Upstreams) < 3 {
				c.Upstreams = append(c.Upstreams, config.UpstreamConfig{Name: "u2", Servers: []config.UpstreamServerConfig{{Addr: origins[2]}}})
				return op + " u2"
			}
		case "up_servers_change":
			u := &c.Upstreams[1+rnd.Intn(len(c.Upstreams)-1)]
			u.Servers = []config.UpstreamServerConfig{{Addr: origins[1+rnd.Intn(len(origins)-1)]}}
			return op + " " + u.Name + " " + u.Servers[0].Addr
		case "up_ae_set":
			u := &c.Upstreams[1+rnd.Intn(len(c.Upstreams)-1)]
			u.AcceptEncoding = "gzip"
			return op + " " + u.Name
		case "up_ae_unset":
			u := &c.Upstreams[1+rnd.Intn(len(c.Upstreams)-1)]
			if u.AcceptEncoding != "" {
				u.AcceptEncoding = ""
				return op + " " + u.Name
			}
		case "up_h2c_set":
			u := &c.Upstreams[1+rnd.Intn(len(c.Upstreams)-1)]
			if !u.EnableH2C {
				u.EnableH2C = true
				return op + " " + u.Name
			}
		case "up_h2c_unset":
			u := &c.Upstreams[1+rnd.Intn(len(c.Upstreams)-1)]
			if u.EnableH2C {
				u.EnableH2C = false
				return op + " " + u.Name
			}
		case "cmp_add":
			if len(c.Compresses) < 3 {
				n := "cmpB"
				for _, x := range c.Compresses {
					if x.Name == n {
						n = ""
					}
				}
				if n != "" {
					c.Compresses = append(c.Compresses, config.CompressConfig{Name: n, Levels: map[string]uint{"gzip": 9, "br": 9}})
					return op + " " + n
				}
			}
		case "cmp_modify":
			for i := range c.Compresses {
				if c.Compresses[i].Name != "bestCompression" && rnd.Intn(2) == 0 {
					c.Compresses[i].Levels = map[string]uint{"gzip": uint(1 + rnd.Intn(9)), "br": uint(1 + rnd.Intn(11))}
					return op + " " + c.Compresses[i].Name + fmt.Sprint(c.Compresses[i].Levels)
				}
			}
		case "cmp_drop_level":
			for i := range c.Compresses {
				if c.Compresses[i].Name != "bestCompression" && len(c.Compresses[i].Levels) == 2 {
					k := []string{"gzip", "br"}[rnd.Intn(2)]
					lv := map[string]uint{}
					for kk, v := range c.Compresses[i].Levels {
						if kk != k {
							lv[kk] = v
						}
					}
					c.Compresses[i].Levels = lv
					return op + " " + c.Compresses[i].Name + " drops " + k
				}
			}
		case "cmp_remove":
			for i := range c.Compresses {
				n := c.Compresses[i].Name
				used := false
				for _, sv := range c.Servers {
					if sv.Compress == n {
						used = true
					}
				}
				if !used && n != "bestCompression" {
					c.Compresses = append(c.Compresses[:i:i], c.Compresses[i+1:]...)
					return op + " " + n
				}
			}
		case "best_override":
			if rnd.Intn(5) == 0 {
				has := false
				for _, x := range c.Compresses {
					if x.Name == "bestCompression" {
						has = true
					}
				}
				if !has {
					c.Compresses = append(c.Compresses, config.CompressConfig{Name: "bestCompression", Levels: map[string]uint{"gzip": 1, "br": 1}})
					return op
				}
			}
		case "best_remove":
			for i := range c.Compresses {
				if c.Compresses[i].Name == "bestCompression" {
					c.Compresses = append(c.Compresses[:i:i], c.Compresses[i+1:]...)
					seq.OverrodeBestAndBack = true
					return op
				}
			}
		}
	}
	return ""
}

func c16WithPorts(c *config.PikeConfig, ports map[string]int) *config.PikeConfig {
	d := deepCopyCfg(c)
	for i := range d.Servers {
		d.Servers[i].Addr = srvAddr(ports[d.Servers[i].Addr])
	}
	for i := range d.Caches {
		if d.Caches[i].Store == "SHARED_STORE" {
			// each process has its own badger directory
			d.Caches[i].Store = fmt.Sprintf("badger:///var/tmp/verif-c16-store-%d-%d", os.Getpid(), ports["S0"])
		}
	}
	return d
}

type c16Outcome struct {
	Status int
	Label  string
	CE     string
	RawSha string
	DecSha string
	Hdr    string
	Origin string // which origin served the fetch and what it saw
}

func (o c16Outcome) String() string {
	return fmt.Sprintf("status=%d label=%s ce=%q raw=%s dec=%s hdr=[%s] upstream=[%s]", o.Status, o.Label, o.CE, o.RawSha, o.DecSha, o.Hdr, o.Origin)
}

type c16Proc struct {
	name  string
	pike  *hx.Pike
	ports map[string]int
	cl    *hx.Client
	admin string
	// readsAfterSave admin GET /config requests issued right after an in-place write
	readsAfterSave int
}

func c16OriginScript(f *hx.Fetch) *hx.Reply {
	u, _ := url.ParseRequestURI(f.URI)
	q := u.Query()
	size, _ := strconv.Atoi(q.Get("size"))
	ct := q.Get("ct")
	if ct == "" {
		ct = "text/html"
	}
	cc := "max-age=3600"
	if q.Get("cc") == "0" {
		cc = "no-cache"
	}
	h := fnvHash(u.Path + "|" + q.Get("size") + "|" + q.Get("n"))
	return &hx.Reply{Status: 200, Header: [][2]string{{"Content-Type", ct}, {"Cache-Control", cc}, {"X-Origin", strconv.Itoa(f.Server)}}, Body: hx.PRNGBytes(int64(h), size, "text"), NoFetchHdr: true}
}

func fnvHash(s string) uint32 {
	h := uint32(2166136261)
	for i := 0; i < len(s); i++ {
		h ^= uint32(s[i])
		h *= 16777619
	}
	return h & 0x7fffffff
}

func (p *c16Proc) probe(farm *hx.Farm, slot, uri, accept string) c16Outcome {
	hdr := map[string][]string{}
	if accept != "" {
		hdr["Accept-Encoding"] = []string{accept}
	}
	res := p.cl.Do(hx.Req{Addr: srvAddr(p.ports[slot]), Host: "hh.example", URI: uri, Header: hdr, Timeout: 10 * time.Second})
	o := c16Outcome{Status: res.Status, Label: res.Label, CE: res.CE, RawSha: hx.Sha(res.Raw), DecSha: hx.Sha(res.Decoded)}
	if res.Err != nil {
		o.Label = "ERR:" + strings.SplitN(res.Err.Error(), ": ", 2)[0]
		if ne, ok := res.Err.(net.Error); ok && ne.Timeout() {
			o.Label = "ERR:timeout"
		}
		if strings.Contains(res.Err.Error(), "refused") {
			o.Label = "ERR:connection refused"
		}
		return o
	}
	var hs []string
	for k, v := range res.Header {
		switch k {
		case "Date", "Content-Length", "Age", "X-Status", "Content-Encoding":
		default:
			hs = append(hs, k+"="+strings.Join(v, "|"))
		}
	}
	sort.Strings(hs)
	o.Hdr = strings.Join(hs, ";")
	if res.Status >= 400 {
		o.RawSha, o.DecSha = "", ""
		o.Hdr = strings.SplitN(string(res.Raw), ", message=", 2)[len(strings.SplitN(string(res.Raw), ", message=", 2))-1]
	}
	for _, f := range farm.ByReqID(res.ReqID) {
		seen := []string{"origin" + strconv.Itoa(f.Server), f.Proto, f.URI}
		for _, k := range []string{"X-Added-Req", "Accept-Encoding"} {
			if v := f.Header[k]; len(v) > 0 {
				seen = append(seen, k+"="+strings.Join(v, "|"))
			}
		}
		o.Origin += strings.Join(seen, " ") + ";"
	}
	return o
}

// apply a configuration to the live process and wait until it is applied
func (p *c16Proc) apply(cfg *config.PikeConfig, method string, padTo *int) error {
	before := p.pike.CountEvent("update.done")
	if err := p.save(cfg, method, padTo); err != nil {
		return err
	}
	return p.waitApplied(before, method)
}

// save hands the configuration to the live process (admin API or one in-place write of its file)
func (p *c16Proc) save(cfg *config.PikeConfig, method string, padTo *int) error {
	switch method {
	case "admin_put":
		body, _ := json.Marshal(cfg)
		res := p.cl.Do(hx.Req{Method: "PUT", Addr: p.admin, URI: "/config", Header: map[string][]string{"Content-Type": {"application/json"}}, Body: body, Timeout: 10 * time.Second})
		if res.Err != nil || res.Status != 200 {
			return fmt.Errorf("admin PUT /config: status %d err %v body %.200s", res.Status, res.Err, res.Raw)
		}
	default:
		data, err := yaml.Marshal(cfg)
		if err != nil {
			return err
		}
		// a single write(2) at offset 0 without truncation; padded so that no old tail survives
		if st, err := os.Stat(p.pike.CfgPath); err == nil && int(st.Size()) > *padTo {
			*padTo = int(st.Size())
		}
		for len(data) < *padTo {
			data = append(data, '\n')
		}
		*padTo = len(data)
		f, err := os.OpenFile(p.pike.CfgPath, os.O_WRONLY, 0600)
		if err != nil {
			return err
		}
		_, err = f.WriteAt(data, 0)
		f.Close()
		if err != nil {
			return err
		}
		if p.admin != "" && *padTo%2 == 0 {
			// somebody looks at the configuration through the admin API right after the save (the
			// reload is debounced, so this read lands before it)
			p.cl.Do(hx.Req{Method: "GET", Addr: p.admin, URI: "/config", Timeout: 5 * time.Second})
			p.readsAfterSave++
		}
	}
	return nil
}

// waitApplied: completion is observed, not assumed: update.done events, then a quiet period
func (p *c16Proc) waitApplied(before int, method string) error {
	if !hx.WaitUntil(25*time.Second, func() bool { return p.pike.CountEvent("update.done") > before }) {
		return fmt.Errorf("no reload observed after %s", method)
	}
	last := p.pike.CountEvent("update.begin")
	for quiet := 0; quiet < 6; {
		time.Sleep(50 * time.Millisecond)
		if n := p.pike.CountEvent("update.begin"); n != last || p.pike.CountEvent("update.done") != n {
			last, quiet = n, 0
		} else {
			quiet++
		}
	}
	return nil
}

func c16Run(r *hx.Run, bin string, seq *c16Seq, rnd *rand.Rand) {
	farm := hx.NewFarm(4, nil)
	defer farm.Close()
	farm.SetScript(c16OriginScript)
	farm.PingDelay.Store(int64(40 * time.Millisecond)) // a slow health endpoint widens every reload's windows
	var origins []string
	for _, o := range farm.Origins[:3] {
		origins = append(origins, o.URL())
	}
	// the fourth origin answers health checks very slowly: an update that adds it takes seconds to apply
	farm.Origins[3].PingDelay.Store(int64(600 * time.Millisecond))
	slowOrigin := farm.Origins[3].URL()
	mkProc := func(name string) *c16Proc {
		pp := hx.FreePorts(5)
		return &c16Proc{name: name, ports: map[string]int{"S0": pp[0], "S1": pp[1], "S2": pp[2], "S3": pp[4]}, admin: srvAddr(pp[3]), cl: hx.NewClient(nil)}
	}
	L, F := mkProc("live"), mkProc("fresh")
	logical := c16Initial(origins)
	dirL := filepath.Join(r.Scratch, fmt.Sprintf("c16-%d-live", seq.ID))
	var err error
	L.pike, err = hx.NewPike(bin, dirL, c16WithPorts(logical, L.ports), L.ports["S0"]+0)
	if err != nil {
		r.InconclusiveCase("prepare pike: " + err.Error())
		return
	}
	L.pike.AdminAddr = L.admin
	defer L.pike.Kill()
	defer os.RemoveAll(fmt.Sprintf("/var/tmp/verif-c16-store-%d-%d", os.Getpid(), L.ports["S0"]))
	defer os.RemoveAll(fmt.Sprintf("/var/tmp/verif-c16-store-%d-%d", os.Getpid(), F.ports["S0"]))
	addrsOf := func(p *c16Proc, c *config.PikeConfig) []string {
		var a []string
		for _, s := range c.Servers {
			a = append(a, srvAddr(p.ports[s.Addr]))
		}
		return a
	}
	if _, err := L.pike.Start(append(addrsOf(L, logical), L.admin), 30*time.Second); err != nil {
		r.InconclusiveCase("live pike does not start: " + err.Error())
		return
	}
	cs := map[string]interface{}{"sequence": seq}
	// a key cached through the stable server before any update
	stableURI := fmt.Sprintf("/p0/stable?size=2000&n=%d", seq.ID)
	pre := L.probe(farm, "S0", stableURI, "gzip")
	if pre.Status != 200 {
		r.InconclusiveCase("stable key could not be cached: " + pre.String())
		return
	}
	// continuous traffic on the unchanged server while updates are applied
	var stop atomic.Bool
	var trafficN, trafficBad atomic.Int64
	var firstBad atomic.Value
	var twg sync.WaitGroup
	twg.Add(1)
	go func() {
		defer twg.Done()
		cl := hx.NewClient(nil)
		for i := 0; !stop.Load(); i++ {
			// half of the traffic is uncacheable, so it reaches the proxy step every time
			res := cl.Do(hx.Req{Addr: srvAddr(L.ports["S0"]), Host: "hh.example", URI: fmt.Sprintf("/p0/traffic?size=300&n=%d&cc=%d", i%7, i%2), Timeout: 5 * time.Second})
			trafficN.Add(1)
			if res.Err != nil || res.Status != 200 {
				if trafficBad.Add(1) == 1 {
					firstBad.Store(fmt.Sprintf("request #%d: status %d err %v", i, res.Status, res.Err))
				}
			}
			time.Sleep(time.Millisecond)
		}
	}()
	// requests on the server whose configuration changes, too: they are not judged (the server is being
	// reconfigured), but they land inside every reload's windows
	for g := 0; g < 3; g++ {
		twg.Add(1)
		go func(g int) {
			defer twg.Done()
			cl := hx.NewClient(nil)
			for i := 0; !stop.Load(); i++ {
				cl.Do(hx.Req{Addr: srvAddr(L.ports["S1"]), Host: "hh.example", URI: fmt.Sprintf("/p%d/busy?size=300&n=%d&g=%d", i%2, i%5, g), Timeout: 5 * time.Second})
			}
		}(g)
	}
	removed := map[string]bool{}
	kaS2, kaS2Used := hx.NewClient(nil), false
	pad := 0
	var removedAt time.Time
	nsteps := 2 + rnd.Intn(5)
	var script []func() string
	sharedURI := fmt.Sprintf("/p0/shared?size=900&n=%d", seq.ID)
	var sharedPre c16Outcome
	switch seq.Directed {
	case "best_override_then_remove":
		script = []func() string{
			func() string {
				logical.Compresses = append(logical.Compresses, config.CompressConfig{Name: "bestCompression", Levels: map[string]uint{"gzip": 1, "br": 1}})
				return "best_override"
			},
			func() string {
				logical.Compresses = logical.Compresses[:len(logical.Compresses)-1]
				seq.OverrodeBestAndBack = true
				return "best_remove"
			},
		}
	case "compress_level_set_then_unset":
		script = []func() string{
			func() string {
				logical.Compresses[0].Levels = map[string]uint{"gzip": 9, "br": 1}
				return "cmp_modify cmpA gzip:9 br:1"
			},
			func() string {
				logical.Compresses[0].Levels = map[string]uint{"gzip": 9}
				return "cmp_drop_level cmpA drops br"
			},
		}
	case "cache_settings_changed":
		script = []func() string{
			func() string {
				// size and hit-for-pass of a surviving cache are restart-only: the update need not take
				// effect, but the servers bound to that cache must keep serving
				logical.Caches[1].Size = 777
				logical.Caches[1].HitForPass = "10m"
				return "cache c1: size and hitForPass changed (restart-only settings)"
			},
		}
	case "compress_section_emptied":
		script = []func() string{
			func() string {
				// the only profile left is an override of bestCompression ...
				findSrv(logical, "S1").Compress = ""
				logical.Compresses = []config.CompressConfig{{Name: "bestCompression", Levels: map[string]uint{"gzip": 1, "br": 1}}}
				return "cmpA removed (S1 uses the default profile), bestCompression overridden with gzip:1 br:1"
			},
			func() string {
				// ... and then the whole section disappears from the saved document
				logical.Compresses = nil
				seq.OverrodeBestAndBack = true
				return "last compress profile removed: the compresses section is gone from the file"
			},
		}
	case "rewrite_replacement_changed":
		script = []func() string{
			func() string {
				logical.Locations[1].Rewrites = []string{logical.Locations[1].Prefixes[0] + "/*:/rw/$1"}
				return "loc_rewrite_set l1 /rw/$1"
			},
			func() string {
				logical.Locations[1].Rewrites = []string{logical.Locations[1].Prefixes[0] + "/*:/v2/$1"}
				return "loc_rewrite_set l1 /v2/$1 (same pattern, other replacement)"
			},
		}
	case "ordered_lists_permuted":
		// lists whose order matters (chained rewrite rules, repeated header lines, prefixes and hosts)
		// are first set and then only permuted: a live update must apply the new order as a fresh start does
		script = []func() string{
			func() string {
				l := &logical.Locations[1]
				l.Rewrites = []string{l.Prefixes[0] + "/*:/mid/$1", "/mid/*:/end/$1"}
				l.ReqHeaders = []string{"X-Added-Req:first", "X-Added-Req:second"}
				l.RespHeaders = []string{"X-Added-Resp:first", "X-Added-Resp:second"}
				return "loc_rewrite_set l1 chained rules [P/*:/mid/$1, /mid/*:/end/$1], two lines of one added header"
			},
			func() string {
				l := &logical.Locations[1]
				l.Rewrites = []string{"/mid/*:/end/$1", l.Prefixes[0] + "/*:/mid/$1"}
				l.ReqHeaders = []string{"X-Added-Req:second", "X-Added-Req:first"}
				l.RespHeaders = []string{"X-Added-Resp:second", "X-Added-Resp:first"}
				return "same lists, order reversed"
			},
		}
	case "upstream_h2c_toggled":
		script = []func() string{
			func() string { logical.Upstreams[1].EnableH2C = true; return "up_h2c_set u1" },
			func() string { logical.Upstreams[1].EnableH2C = false; return "up_h2c_unset u1" },
			func() string { logical.Upstreams[1].EnableH2C = true; return "up_h2c_set u1 again" },
		}
	case "save_during_slow_update":
		script = []func() string{
			func() string {
				logical.Upstreams = append(logical.Upstreams, config.UpstreamConfig{Name: "uslow", HealthCheck: "/ping", Servers: []config.UpstreamServerConfig{{Addr: slowOrigin}}})
				return "upstream_add uslow (its health endpoint takes 600 ms per ping: the update takes seconds)"
			},
			func() string {
				logical.Caches = append(logical.Caches, config.CacheConfig{Name: "c2", Size: 5000, HitForPass: "5m"})
				findSrv(logical, "S1").Cache = "c2"
				logical.Caches = append(logical.Caches[:1:1], logical.Caches[2:]...) // c1 is gone
				logical.Locations[0].RespHeaders = append(logical.Locations[0].RespHeaders, "X-Late:1")
				logical.Upstreams = logical.Upstreams[:len(logical.Upstreams)-1] // and the slow upstream is taken out again
				return "uslow removed again, cache c1 replaced by c2 for S1, response header on l0 - saved while the previous update is still being applied"
			},
		}
	case "server_cache_switch":
		script = []func() string{
			func() string { findSrv(logical, "S1").Cache = "c0"; return "srv_cache_switch S1 c0" },
		}
	case "server_cache_renamed":
		script = []func() string{
			func() string {
				logical.Caches = append(logical.Caches, config.CacheConfig{Name: "c2", Size: 5000, HitForPass: "5m"})
				findSrv(logical, "S1").Cache = "c2"
				logical.Caches = append(logical.Caches[:1:1], logical.Caches[2:]...) // c1 is gone
				return "cache c1 replaced by c2 for S1"
			},
		}
	case "remove_two_servers":
		script = []func() string{
			func() string {
				logical.Servers = append(logical.Servers, config.ServerConfig{Addr: "S2", Locations: []string{"l0"}, Cache: "c0"}, config.ServerConfig{Addr: "S3", Locations: []string{"l1"}, Cache: "c1"})
				return "srv_add S2, S3"
			},
			func() string {
				logical.Servers = logical.Servers[:len(logical.Servers)-2]
				removed["S2"] = true
				return "srv_remove S2 and S3 in one update"
			},
		}
	case "shared_store_cache_removed":
		script = []func() string{
			func() string {
				logical.Caches = append(logical.Caches, config.CacheConfig{Name: "cs1", Size: 8, HitForPass: "5m", Store: "SHARED_STORE"}, config.CacheConfig{Name: "cs2", Size: 8, HitForPass: "5m", Store: "SHARED_STORE"})
				logical.Servers = append(logical.Servers, config.ServerConfig{Addr: "S2", Locations: []string{"l0"}, Cache: "cs1"}, config.ServerConfig{Addr: "S3", Locations: []string{"l0"}, Cache: "cs2"})
				return "add caches cs1, cs2 on one store and servers S2->cs1, S3->cs2"
			},
			func() string {
				// a key is cached (and persisted) through S2 before the other cache goes away
				sharedPre = L.probe(farm, "S2", sharedURI, "")
				logical.Servers = logical.Servers[:len(logical.Servers)-1]
				logical.Caches = logical.Caches[:len(logical.Caches)-1]
				return "remove S3 and its cache cs2 (cs1 keeps using the same store)"
			},
		}
	case "server_readd_then_later_update":
		script = []func() string{
			func() string {
				logical.Servers = append(logical.Servers, config.ServerConfig{Addr: "S2", Locations: []string{"l0"}, Cache: "c0"})
				return "srv_add S2"
			},
			func() string {
				logical.Servers = logical.Servers[:len(logical.Servers)-1]
				return "srv_remove S2 (not counted)"
			},
			func() string {
				logical.Servers = append(logical.Servers, config.ServerConfig{Addr: "S2", Locations: []string{"l0"}, Cache: "c0"})
				return "srv_readd S2 (inside the graceful close of the old listener: the known finding)"
			},
			func() string {
				// the old listener has been closed for a while now; any later update starts the server
				time.Sleep(13 * time.Second)
				logical.Locations[1].RespHeaders = append(logical.Locations[1].RespHeaders, "X-Later:1")
				return "unrelated update 13 s later: the re-added server must be listening afterwards"
			},
		}
	case "server_remove_then_readd":
		script = []func() string{
			func() string {
				logical.Servers = append(logical.Servers, config.ServerConfig{Addr: "S2", Locations: []string{"l0"}, Cache: "c0"})
				return "srv_add S2"
			},
			func() string {
				logical.Servers = logical.Servers[:len(logical.Servers)-1]
				return "srv_remove S2 (not counted)"
			},
			func() string {
				logical.Servers = append(logical.Servers, config.ServerConfig{Addr: "S2", Locations: []string{"l0"}, Cache: "c0"})
				seq.ReAddedServer = true
				return "srv_readd S2"
			},
		}
	}
	if script != nil {
		nsteps = len(script)
	}
	for si := 0; si < nsteps; si++ {
		var op string
		if script != nil {
			op = script[si]()
		} else {
			op = c16Mutate(rnd, logical, origins, seq, removed)
		}
		if op == "" {
			continue
		}
		method := []string{"admin_put", "inplace_write"}[rnd.Intn(2)]
		seq.Steps = append(seq.Steps, c16Step{op, method})
		if strings.HasPrefix(op, "srv_remove") {
			removedAt = time.Now()
		}
		if seq.Directed == "remove_two_servers" {
			method = "inplace_write"
		}
		if seq.Directed == "save_during_slow_update" {
			method = "inplace_write"
			seq.Steps[len(seq.Steps)-1].Method = method
			if si == 0 {
				// saved, not waited for: the next save arrives while this one is being applied
				begun := L.pike.CountEvent("update.begin")
				if err := L.save(c16WithPorts(logical, L.ports), method, &pad); err != nil {
					r.InconclusiveCase("cannot write the configuration: " + err.Error())
					stop.Store(true)
					twg.Wait()
					return
				}
				if !hx.WaitUntil(10*time.Second, func() bool { return L.pike.CountEvent("update.begin") > begun }) {
					r.InconclusiveCase("the first save did not start an update")
					stop.Store(true)
					twg.Wait()
					return
				}
				time.Sleep(300 * time.Millisecond)
				if L.pike.CountEvent("update.done") < L.pike.CountEvent("update.begin") {
					r.Add("saves_while_an_update_was_being_applied", 1)
				}
				continue
			}
		}
		if err := L.apply(c16WithPorts(logical, L.ports), method, &pad); err != nil {
			stop.Store(true)
			twg.Wait()
			r.Violate("update_not_applied", map[string]string{"apply_method": method}, "configuration update failed: "+err.Error(), nil, cs)
			return
		}
		r.Add("steps_applied_via_"+method, 1)
		if findSrv(logical, "S2") != nil {
			// a client (think of a front proxy) keeps a connection to S2 open
			if res := kaS2.Do(hx.Req{Addr: srvAddr(L.ports["S2"]), Host: "hh.example", URI: fmt.Sprintf("/p0/keepalive?size=300&n=%d", si), Timeout: 5 * time.Second}); res.Err == nil {
				kaS2Used = true
			}
		} else if kaS2Used && removed["S2"] {
			// S2 has just been removed: over the connection that is still open it must not be served as before
			res := kaS2.Do(hx.Req{Addr: srvAddr(L.ports["S2"]), Host: "hh.example", URI: fmt.Sprintf("/p0/keepalive?size=300&after_removal=%d", si), Timeout: 5 * time.Second})
			r.Add("requests_over_kept_connection_to_removed_server", 1)
			if res.Err == nil && res.Status == 200 {
				stop.Store(true)
				twg.Wait()
				r.Violate("removed_server_still_serving", map[string]string{"via": "kept_alive_connection"}, "a server removed from the configuration still answers 200 over a connection opened before the update", res.Brief(), cs)
				return
			}
			kaS2Used = false
		}
	}
	time.Sleep(100 * time.Millisecond)
	stop.Store(true)
	twg.Wait()
	r.Add("stable_traffic_requests_during_updates", trafficN.Load())
	r.Add("admin_reads_of_the_configuration_right_after_a_save", int64(L.readsAfterSave))
	methods := map[string]bool{}
	for _, s := range seq.Steps {
		methods[s.Method] = true
	}
	mparam := "mixed"
	if len(methods) == 1 {
		for m := range methods {
			mparam = m
		}
	}
	if n := trafficBad.Load(); n > 0 {
		r.Violate("unchanged_server_disturbed", map[string]string{"apply_methods": mparam}, fmt.Sprintf("%d of %d requests to the unchanged server failed while updates were applied (%v)", n, trafficN.Load(), firstBad.Load()), nil, cs)
		return
	}
	if seq.Directed == "shared_store_cache_removed" {
		// push the key out of cs1's memory; it must come back from the store the removed cache shared
		for k := 0; k < 40; k++ {
			L.probe(farm, "S2", fmt.Sprintf("/p0/fill?size=100&n=%d", seq.ID*1000+k), "")
		}
		back := L.probe(farm, "S2", sharedURI, "")
		r.Add("shared_store_continuity_checks", 1)
		if sharedPre.Status != 200 || back.Label != "hit" || back.RawSha != sharedPre.RawSha {
			r.Violate("persisted_entry_of_surviving_cache_lost", map[string]string{"apply_methods": "directed"}, "after a cache sharing the same store was removed, an evicted entry of the surviving cache is no longer served from the store: before "+sharedPre.String()+" | after eviction "+back.String(), nil, cs)
			return
		}
	}
	if seq.Directed == "cache_settings_changed" {
		for k := 0; k < 6; k++ {
			o := L.probe(farm, "S1", fmt.Sprintf("/p1/afterchange?size=300&n=%d", seq.ID*100+k), "")
			if o.Status != 200 {
				r.Violate("server_cannot_resolve_its_cache_after_update", nil, "after an accepted update that only changed restart-only settings of a cache, a server bound to it answers: "+o.String(), nil, cs)
				return
			}
		}
		r.Add("restart_only_cache_setting_updates_survived", 1)
		r.Add("sequences", 1)
		r.Distinct(fmt.Sprintf("%v", seq.Steps))
		return
	}
	if seq.Directed == "remove_two_servers" {
		time.Sleep(time.Until(removedAt.Add(14 * time.Second)))
		for _, slot := range []string{"S2", "S3"} {
			if c, err := net.DialTimeout("tcp", srvAddr(L.ports[slot]), time.Second); err == nil {
				c.Close()
				r.Violate("removed_server_still_listening", map[string]string{"removed_together": "2"}, "of two servers removed by one update, "+slot+" still accepts connections 14 s later", nil, cs)
				return
			}
		}
		r.Add("removed_listeners_checked", 2)
	}
	post := L.probe(farm, "S0", stableURI, "gzip")
	r.Add("retained_hit_checks", 1)
	if post.Label != "hit" || post.RawSha != pre.RawSha {
		r.Violate("cached_entry_of_surviving_cache_lost", map[string]string{"apply_methods": mparam}, "a key cached (T=1h) through the unchanged server before the updates is no longer a hit: "+post.String(), nil, cs)
		return
	}
	// fresh process on the final configuration
	dirF := filepath.Join(r.Scratch, fmt.Sprintf("c16-%d-fresh", seq.ID))
	F.pike, err = hx.NewPike(bin, dirF, c16WithPorts(logical, F.ports), 0)
	if err != nil {
		r.InconclusiveCase("prepare fresh pike: " + err.Error())
		return
	}
	defer F.pike.Kill()
	if _, err := F.pike.Start(addrsOf(F, logical), 30*time.Second); err != nil {
		r.InconclusiveCase("fresh pike does not start: " + err.Error())
		return
	}
	// probe suite derived from the final configuration
	type probeSpec struct{ slot, uri, accept string }
	var probes []probeSpec
	n := 0
	for _, s := range logical.Servers {
		minLen := 1024
		switch s.CompressMinLength {
		case "100":
			minLen = 100
		case "500":
			minLen = 500
		case "2kb":
			minLen = 2000
		}
		// a fixed core: large text bodies, cacheable or not, with every Accept-Encoding, on every prefix
		for pi := 0; pi < 4; pi++ {
			for _, cc := range []string{"1", "0"} {
				for _, ae := range []string{"", "gzip", "br"} {
					n++
					probes = append(probes, probeSpec{s.Addr, fmt.Sprintf("/p%d/core?size=5000&ct=text%%2Fhtml&cc=%s&n=%d", pi, cc, seq.ID*100000+n), ae})
				}
			}
		}
		for pi := 0; pi < 4; pi++ {
			for _, size := range []int{minLen - 1, minLen + 1, 60, 5000} {
				for _, ct := range []string{"text/html", "image/png", "application/custom"} {
					for _, cc := range []string{"1", "0"} {
						if rnd.Intn(3) != 0 {
							continue
						}
						n++
						uri := fmt.Sprintf("/p%d/x/y?size=%d&ct=%s&cc=%s&n=%d", pi, size, url.QueryEscape(ct), cc, seq.ID*100000+n)
						probes = append(probes, probeSpec{s.Addr, uri, []string{"", "gzip", "br"}[rnd.Intn(3)]})
					}
				}
			}
		}
	}
	for _, pr := range probes {
		for rep := 0; rep < 2; rep++ { // fetch, then from cache
			a, b := L.probe(farm, pr.slot, pr.uri, pr.accept), F.probe(farm, pr.slot, pr.uri, pr.accept)
			r.Eval(1)
			r.Add("probes_compared", 1)
			if a.String() != b.String() {
				params := map[string]string{"apply_methods": mparam, "best_overridden_then_removed": fmt.Sprint(seq.OverrodeBestAndBack), "server_re_added": fmt.Sprint(seq.ReAddedServer)}
				r.Violate("live_differs_from_fresh", params, fmt.Sprintf("probe %s %s accept=%q (pass %d): live-updated: %s | fresh start: %s", pr.slot, pr.uri, pr.accept, rep, a, b), nil, cs)
				return
			}
		}
	}
	// cache binding: a key fetched through one server is a hit through another iff both name the same cache
	for i, sa := range logical.Servers {
		for j, sb := range logical.Servers {
			if i >= j {
				continue
			}
			var common string
			for _, l := range sa.Locations {
				if hasName(sb.Locations, l) {
					common = l
				}
			}
			if common == "" {
				continue
			}
			uri := fmt.Sprintf("/p%s/bind?size=500&n=%d", common[1:], seq.ID*1000+i*10+j)
			a1, b1 := L.probe(farm, sa.Addr, uri, ""), F.probe(farm, sa.Addr, uri, "")
			a2, b2 := L.probe(farm, sb.Addr, uri, ""), F.probe(farm, sb.Addr, uri, "")
			r.Add("cache_binding_checks", 1)
			if a1.Label != b1.Label || a2.Label != b2.Label {
				r.Violate("live_differs_from_fresh", map[string]string{"apply_methods": mparam, "aspect": "cache_binding"}, fmt.Sprintf("cache binding of %s/%s differs: live %s,%s fresh %s,%s", sa.Addr, sb.Addr, a1.Label, a2.Label, b1.Label, b2.Label), nil, cs)
				return
			}
		}
	}
	// removed servers stop listening (GracefulClose waits 10 s)
	if removed["S2"] && findSrv(logical, "S2") == nil && seq.CheckRemovedListener {
		wait := time.Until(removedAt.Add(14 * time.Second))
		if wait > 0 {
			time.Sleep(wait)
		}
		if c, err := net.DialTimeout("tcp", srvAddr(L.ports["S2"]), time.Second); err == nil {
			c.Close()
			r.Violate("removed_server_still_listening", nil, "a server removed from the configuration still accepts connections 14 s later", nil, cs)
			return
		}
		r.Add("removed_listeners_checked", 1)
	}
	r.Add("sequences", 1)
	r.Distinct(fmt.Sprintf("%v", seq.Steps))
	if seq.ID < 3 {
		r.Sample(seq)
	}
	if rep := L.pike.RaceReports(); strings.Contains(rep, "WARNING: DATA RACE") && strings.Contains(rep, "vicanso/pike/") {
		r.Add("race_reports_in_live_process", 1)
	}
}

func c16(r *hx.Run) {
	r.Rule = "two real pike processes per sequence. The live one starts on a base configuration (2 caches, 2 upstreams, 2 locations, 2 servers, 1 compress profile) and receives 2-6 random valid updates (32 mutation kinds: set/unset min length, filter, compress profile, cache, location list; add/remove server, location, upstream, compress profile; set/unset rewrites, added headers, added query, upstream Accept-Encoding, upstream enableH2C, upstream server list; override/remove bestCompression) through the admin PUT /config or a single in-place write of the file, each completion observed through the update.done hook, under continuous traffic on an unchanged server; the fresh one is started on the final configuration. A probe suite derived from the final configuration (servers x 4 prefixes x sizes around the effective threshold x 3 content types x cacheable or not x Accept-Encoding, each twice) is run against both and compared field by field (status, label, encoding, encoded and decoded bytes, headers, which origin saw which path/query/headers), plus cache binding between servers, the retained hit of a key cached before the updates, and (one sequence) that a removed server stops listening. Fourteen directed sequences add: order-sensitive lists of a location (chained rewrite rules, two lines of one added header) set and then only permuted, a server re-added inside the graceful close of its old listener and an unrelated update 13 s later (it must be listening then), a rewrite rule whose replacement changes while its pattern stays, enableH2C of an upstream set, unset and set again, the last compress profile (an override of bestCompression) removed so that the whole section disappears from the saved file, bestCompression overridden then removed, a server removed and re-added, cache switch/rename, a level set then unset, two servers removed at once, a cache sharing a store removed, restart-only cache settings changed, and a configuration saved while the previous one (with an upstream whose health endpoint is slow) is still being applied. Non-trivial/distinct = step sequence."
	r.Assume = []string{"restart-only settings (cache size/hit-for-pass/store, server log format, admin) are never changed", "gzip/brotli are deterministic, so equal levels give equal bytes", "addresses differ between the two processes and are not compared"}
	bin, err := hx.BuildPike(r.Scratch)
	if err != nil {
		fmt.Println(err)
		r.Inconclusive("cannot build pike")
		return
	}
	rnd := rand.New(rand.NewSource(r.Seed))
	n := r.Pick(8, 400)
	sem := make(chan struct{}, 8)
	var wg sync.WaitGroup
	for i := 0; i < n+14 && !r.TooMany(); i++ {
		seq := &c16Seq{ID: i, CheckRemovedListener: i%8 == 0}
		if i == n {
			seq.Directed = "best_override_then_remove"
		}
		if i == n+1 {
			seq.Directed = "server_remove_then_readd"
		}
		if i == n+2 {
			seq.Directed = "server_cache_switch"
		}
		if i == n+3 {
			seq.Directed = "server_cache_renamed"
		}
		if i == n+4 {
			seq.Directed = "compress_level_set_then_unset"
		}
		if i == n+5 {
			seq.Directed = "remove_two_servers"
		}
		if i == n+6 {
			seq.Directed = "shared_store_cache_removed"
		}
		if i == n+7 {
			seq.Directed = "cache_settings_changed"
		}
		if i == n+8 {
			seq.Directed = "save_during_slow_update"
		}
		if i == n+9 {
			seq.Directed = "compress_section_emptied"
		}
		if i == n+10 {
			seq.Directed = "upstream_h2c_toggled"
		}
		if i == n+11 {
			seq.Directed = "rewrite_replacement_changed"
		}
		if i == n+12 {
			seq.Directed = "server_readd_then_later_update"
		}
		if i == n+13 {
			seq.Directed = "ordered_lists_permuted"
		}
		seed := rnd.Int63()
		wg.Add(1)
		sem <- struct{}{}
		go func() {
			defer wg.Done()
			defer func() { <-sem }()
			c16Run(r, bin, seq, rand.New(rand.NewSource(seed)))
		}()
	}
	wg.Wait()
}

func init() { register("C16", "exploration", c16) }
