package main

import (
	"fmt"
	"math/rand"
	"strconv"
	"strings"

	"github.com/vicanso/pike/config"
	"verifh/hx"
)

// C03: only shareable responses are stored; labels are truthful.

type c03Case struct {
	Drop   bool        `json:"upstream_drops_connection"`
	Method string      `json:"method"`
	URI    string      `json:"uri"`
	Status int         `json:"status"`
	Header [][2]string `json:"upstream_header"`
	Burst  int         `json:"burst"`
	Class  string      `json:"class"`
	Share  string      `json:"reference_verdict"` // shareable | unshareable | ambiguous
	Reason string      `json:"reason"`
}

func randCase(rnd *rand.Rand, s string) string {
	b := []byte(s)
	mode := rnd.Intn(4)
	for i := range b {
		switch mode {
		case 1:
			b[i] = strings.ToUpper(string(b[i]))[0]
		case 2:
			if i == 0 {
				b[i] = strings.ToUpper(string(b[i]))[0]
			}
		case 3:
			if rnd.Intn(2) == 0 {
				b[i] = strings.ToUpper(string(b[i]))[0]
			}
		}
	}
	return string(b)
}

var c03Numbers = []string{"0", "1", "2", "60", "3600", "2147483648", "9223372036854775807", "9223372036854775808", "99999999999999999999", "-1", "-60", "-9223372036854775809", "-99999999999999999999"}

// c03Reference the independent token-level predicate
func c03Reference(method string, header [][2]string) (verdict, reason string) {
	if method != "GET" && method != "HEAD" {
		return "unshareable", "method"
	}
	var ccLines []string
	age := ""
	hasAge := false
	for _, kv := range header {
		switch strings.ToLower(kv[0]) {
		case "set-cookie":
			return "unshareable", "set-cookie"
		case "cache-control":
			ccLines = append(ccLines, kv[1])
		case "age":
			age = kv[1]
			hasAge = true
		}
	}
	if len(ccLines) == 0 {
		return "unshareable", "no-cache-control"
	}
	vals := map[string][]string{}
	for _, line := range ccLines {
		for _, tok := range splitDirectives(line) {
			tok = strings.TrimSpace(tok)
			if tok == "" {
				continue
			}
			name, arg := tok, ""
			if i := strings.IndexByte(tok, '='); i >= 0 {
				name, arg = tok[:i], tok[i+1:]
			}
			name = strings.ToLower(strings.TrimSpace(name))
			arg = strings.Trim(strings.TrimSpace(arg), `"`)
			vals[name] = append(vals[name], arg)
		}
	}
	for _, n := range []string{"no-cache", "no-store", "private"} {
		if _, ok := vals[n]; ok {
			return "unshareable", n
		}
	}
	pick := func(name string) (present bool, v float64, amb bool) {
		list, ok := vals[name]
		if !ok {
			return false, 0, false
		}
		for _, x := range list[1:] {
			if x != list[0] {
				return true, 0, true
			}
		}
		if x := list[0]; len(x) > 1 && x[0] == '-' && strings.Trim(x[1:], "0123456789") == "" {
			// a negative integer of any length is a number, and not a positive lifetime
			return true, -1, false
		}
		f, err := strconv.ParseFloat(list[0], 64)
		if err != nil || f < 0 || strings.ContainsAny(list[0], ".eE+-") {
			return true, 0, true
		}
		return true, f, false
	}
	var life float64
	if p, v, amb := pick("s-maxage"); p {
		if amb {
			return "ambiguous", "s-maxage-duplicate-or-unparsable"
		}
		life = v
	} else if p, v, amb := pick("max-age"); p {
		if amb {
			return "ambiguous", "max-age-duplicate-or-unparsable"
		}
		life = v
	} else {
		return "unshareable", "no-lifetime-directive"
	}
	if life <= 0 {
		return "unshareable", "lifetime-zero"
	}
	if hasAge {
		a, err := strconv.ParseFloat(strings.TrimSpace(age), 64)
		allDigits := age != ""
		for _, ch := range age {
			if ch < '0' || ch > '9' {
				allDigits = false
			}
		}
		if allDigits && a > 9e18 {
			// a huge but well-formed Age is an age: the response is older than any lifetime
			return "unshareable", "age-consumes-lifetime"
		}
		if err != nil || a < 0 || strings.ContainsAny(age, ".eE+") || a > 9e18 {
			// the statement does not say what an invalid Age means; with Age ignored it would be shareable
			return "ambiguous", "invalid-age"
		}
		life -= a
	}
	if life <= 0 {
		return "unshareable", "age-consumes-lifetime"
	}
	return "shareable", ""
}

// splitDirectives splits on commas outside quoted strings
func splitDirectives(line string) []string {
	var out []string
	inq := false
	cur := strings.Builder{}
	for i := 0; i < len(line); i++ {
		c := line[i]
		if c == '"' {
			inq = !inq
		}
		if c == ',' && !inq {
			out = append(out, cur.String())
			cur.Reset()
			continue
		}
		cur.WriteByte(c)
	}
	out = append(out, cur.String())
	return out
}

func c03Gen(rnd *rand.Rand, i int) c03Case {
	methods := []string{"GET", "GET", "GET", "GET", "HEAD", "POST", "PUT", "DELETE", "PATCH", "OPTIONS"}
	statuses := []int{200, 200, 200, 201, 203, 204, 301, 302, 404, 410, 500, 503}
	c := c03Case{Method: methods[rnd.Intn(len(methods))], URI: fmt.Sprintf("/c03/%d", i), Status: statuses[rnd.Intn(len(statuses))]}
	var dirs []string
	// lifetime directives
	switch rnd.Intn(8) {
	case 0:
	case 1:
		dirs = append(dirs, "s-maxage="+c03Numbers[rnd.Intn(len(c03Numbers))])
	case 2:
		dirs = append(dirs, "max-age="+c03Numbers[rnd.Intn(len(c03Numbers))], "s-maxage="+c03Numbers[rnd.Intn(len(c03Numbers))])
	case 3:
		dirs = append(dirs, "s-maxage="+c03Numbers[rnd.Intn(len(c03Numbers))], "max-age="+c03Numbers[rnd.Intn(len(c03Numbers))])
	default:
		dirs = append(dirs, "max-age="+c03Numbers[rnd.Intn(len(c03Numbers))])
	}
	// blocking directives
	if rnd.Intn(3) == 0 {
		b := []string{"no-cache", "no-store", "private", `private="set-cookie"`, `no-cache="x-a"`}
		dirs = append(dirs, b[rnd.Intn(len(b))])
	}
	// harmless ones
	for rnd.Intn(3) == 0 {
		h := []string{"public", "must-revalidate", "proxy-revalidate", "no-transform", "immutable", "stale-while-revalidate=30", "stale-if-error=600", `community="UCI"`, "foo=bar", "x-priv=1", "pre-max-age=77", "min-fresh=5"}
		dirs = append(dirs, h[rnd.Intn(len(h))])
	}
	if rnd.Intn(12) == 0 && len(dirs) > 0 {
		// quoted argument
		dirs[0] = strings.Replace(dirs[0], "=", `="`, 1) + `"`
		if !strings.Contains(dirs[0], `="`) {
			dirs[0] = strings.TrimSuffix(dirs[0], `"`)
		}
	}
	if rnd.Intn(15) == 0 {
		dirs = append(dirs, "max-age="+c03Numbers[rnd.Intn(4)]) // duplicate
	}
	rnd.Shuffle(len(dirs), func(a, b int) { dirs[a], dirs[b] = dirs[b], dirs[a] })
	for k := range dirs {
		dirs[k] = randCase(rnd, dirs[k])
	}
	seps := []string{",", ", ", " , ", ",  ", ",\t"}
	if len(dirs) > 0 {
		nl := 1 + rnd.Intn(3)
		if nl > len(dirs) {
			nl = len(dirs)
		}
		per := (len(dirs) + nl - 1) / nl
		for s := 0; s < len(dirs); s += per {
			e := s + per
			if e > len(dirs) {
				e = len(dirs)
			}
			line := strings.Join(dirs[s:e], seps[rnd.Intn(len(seps))])
			if rnd.Intn(6) == 0 {
				line = " " + line + " "
			}
			c.Header = append(c.Header, [2]string{"Cache-Control", line})
		}
	}
	switch rnd.Intn(10) {
	case 0:
		c.Header = append(c.Header, [2]string{"Set-Cookie", "sid=abc; Path=/"})
	case 1:
		c.Header = append(c.Header, [2]string{"Set-Cookie", ""}, [2]string{"Set-Cookie", "sid=abc"})
	case 2:
		c.Header = append(c.Header, [2]string{"Set-Cookie", "a=1"}, [2]string{"Set-Cookie", "b=2"})
	}
	switch rnd.Intn(9) {
	case 0:
		c.Header = append(c.Header, [2]string{"Age", "0"})
	case 1:
		c.Header = append(c.Header, [2]string{"Age", "1"})
	case 2:
		c.Header = append(c.Header, [2]string{"Age", "59"})
	case 3:
		c.Header = append(c.Header, [2]string{"Age", []string{"-5", "abc", "1.5", "99999999999999999999", "60", "3600", ""}[rnd.Intn(7)]})
	}
	if rnd.Intn(6) == 0 {
		c.Header = append(c.Header, [2]string{"Expires", "Wed, 21 Oct 2099 07:28:00 GMT"}, [2]string{"Last-Modified", "Wed, 21 Oct 2015 07:28:00 GMT"})
	}
	if rnd.Intn(7) == 0 {
		// an upstream that labels its own responses (pike behind pike): the label the client sees must still be pike's own
		c.Header = append(c.Header, [2]string{"X-Status", []string{"hit", "fetching", "passed", "hitForPass"}[rnd.Intn(4)]})
	}
	c.Header = append(c.Header, [2]string{"Content-Type", "text/plain"})
	c.Burst = 1
	if rnd.Intn(5) == 0 {
		c.Burst = 3
	}
	if c.Method != "GET" && c.Method != "HEAD" && c.Method != "OPTIONS" && rnd.Intn(6) == 0 {
		// (Go's transport re-sends GET, HEAD, OPTIONS and TRACE after a dropped connection by itself; that is not judged)
		// the upstream reads the request and drops the connection: still exactly one contact
		c.Drop = true
		c.Burst = 1
	}
	c.Share, c.Reason = c03Reference(c.Method, c.Header)
	c.Class = c.Share
	if c.Reason != "" {
		c.Class += ":" + c.Reason
	}
	return c
}

func c03Run(r *hx.Run, w *W, c c03Case) {
	var body []byte
	if c.Method != "GET" && c.Method != "HEAD" && c.Method != "OPTIONS" && c.Method != "DELETE" {
		body = []byte("payload-" + c.URI)
	}
	rq := hx.Req{Method: c.Method, Addr: w.Addr, Host: "c03.example", URI: c.URI, Body: body}
	before := w.Farm.LogLen()
	var first []*hx.Result
	if c.Burst > 1 {
		first = burst(w, c.Burst, rq)
	} else {
		first = []*hx.Result{w.Cl.Do(rq)}
	}
	second := w.Cl.Do(rq)
	fetches := w.Farm.LogSince(before)
	all := append(append([]*hx.Result{}, first...), second)
	contacts := func(res *hx.Result) int {
		n := 0
		for _, f := range fetches {
			if f.ReqID == res.ReqID {
				n++
			}
		}
		return n
	}
	r.Eval(1)
	r.Add("class_"+c.Class, 1)
	if c.Drop {
		r.Add("upstream_connection_drops_on_non_get", 1)
		for _, res := range all {
			if n := contacts(res); n != 1 {
				r.Violate("non_get_not_forwarded_once", map[string]string{"method": c.Method, "fault": "upstream_drops_connection"}, fmt.Sprintf("%s request whose upstream dropped the connection was forwarded %d times", c.Method, n), map[string]interface{}{"results": briefs(all)}, c)
				return
			}
			if res.Err == nil && res.Status < 400 {
				r.Violate("status_altered", nil, fmt.Sprintf("status %d although the upstream never answered", res.Status), map[string]interface{}{"results": briefs(all)}, c)
				return
			}
		}
		r.Distinct("drop|" + c.Method)
		return
	}
	wit := func() interface{} {
		return map[string]interface{}{"results": briefs(all), "upstream_contacts": len(fetches)}
	}
	// label truthfulness / exactly once
	for _, res := range all {
		if res.Err != nil {
			r.Violate("request_failed", nil, "request failed: "+res.Err.Error(), wit(), c)
			return
		}
		n := contacts(res)
		r.Add("label_checks", 1)
		switch {
		case res.Label == "hit":
			if n != 0 {
				r.Violate("hit_with_upstream_contact", nil, "a response labelled hit involved an upstream contact", wit(), c)
				return
			}
		case c.Method != "GET" && c.Method != "HEAD":
			if n != 1 || res.Label != "passed" {
				r.Violate("non_get_not_forwarded_once", map[string]string{"method": c.Method}, fmt.Sprintf("%s request: %d upstream contacts, label %q", c.Method, n, res.Label), wit(), c)
				return
			}
		default:
			if res.Label != "" && n != 1 {
				r.Violate("non_hit_contacts", nil, fmt.Sprintf("response labelled %q involved %d upstream contacts", res.Label, n), wit(), c)
				return
			}
		}
		if res.Status != c.Status {
			r.Violate("status_altered", nil, fmt.Sprintf("status %d delivered for upstream status %d", res.Status, c.Status), wit(), c)
			return
		}
	}
	// stored => shareable
	stored := second.Label == "hit"
	if stored {
		r.Add("stored", 1)
	}
	shared := map[int64]int{}
	for _, res := range all {
		shared[res.FetchID]++
	}
	reuse := false
	for _, n := range shared {
		if n > 1 {
			reuse = true
		}
	}
	switch c.Share {
	case "unshareable":
		if stored || reuse {
			r.Violate("stored_unshareable", map[string]string{"reason": c.Reason}, "a response the origin did not mark shareable ("+c.Reason+") was reused for another request", wit(), c)
			return
		}
	case "shareable":
		r.Add("shareable_cases", 1)
		if stored {
			r.Add("shareable_and_stored", 1)
			r.Distinct(c.Class + "|" + fmt.Sprint(c.Header))
		}
	case "ambiguous":
		r.Add("ambiguous_cases", 1)
	}
	if c.Share == "unshareable" {
		r.Distinct(c.Class + "|" + fmt.Sprint(c.Header))
	}
	if r.Evals%600 == 1 {
		r.Sample(map[string]interface{}{"case": c, "labels": labelsOf(all)})
	}
}

func c03(r *hx.Run) {
	r.Rule = "one fresh URL per case: method from {GET,HEAD,POST,PUT,DELETE,PATCH,OPTIONS}, status from 12 codes, Cache-Control built from lifetime directives (values 0..20 digits, negative ones up to 20 digits), blocking directives, harmless/extension directives (incl. names that contain a directive name), random order, casing, separators, 1-3 header lines, quoted arguments, duplicates; Set-Cookie none/one/empty-then-real/two; Age valid/invalid; Expires/Last-Modified; an upstream X-Status header of its own. The request (or a burst of 3) is followed by an identical one; an independent token-level predicate says whether the first response was shareable. Verdict only on stored => shareable, label truthfulness and exactly-once; the converse is counted. Non-trivial/distinct = distinct (class, header set) that was unshareable, or shareable and in fact stored."
	r.Assume = []string{"virtual clock (static) so that storing is observable on the second request", "duplicate lifetime directives with different values, unparsable numbers and invalid Age are left unjudged (ambiguous)"}
	rnd := rand.New(rand.NewSource(r.Seed))
	port := hx.FreePorts(1)[0]
	w := newWorldCfg(r, 1, true, func(origins []string) *config.PikeConfig {
		return &config.PikeConfig{
			Caches:    []config.CacheConfig{{Name: "c03", Size: 100000, HitForPass: "5m"}},
			Upstreams: []config.UpstreamConfig{{Name: "u", Servers: []config.UpstreamServerConfig{{Addr: origins[0]}}}},
			// the second location adds a cacheable-looking Cache-Control to every response: what the
			// origin said must still decide
			Locations: []config.LocationConfig{{Name: "l", Upstream: "u"}, {Name: "lcc", Upstream: "u", Prefixes: []string{"/c03cc/"}, RespHeaders: []string{"Cache-Control:public, max-age=300"}}},
			Servers:   []config.ServerConfig{{Addr: srvAddr(port), Locations: []string{"l", "lcc"}, Cache: "c03"}},
		}
	})
	defer w.Farm.Close()
	var cur c03Case
	w.Farm.SetScript(func(f *hx.Fetch) *hx.Reply {
		c := cur
		rep := &hx.Reply{Status: c.Status, Header: c.Header, Body: hx.IdentBody(f, 30, "text"), Drop: c.Drop}
		return rep
	})
	n := r.Pick(3000, 400000)
	for i := 0; i < n && !r.TooMany(); i++ {
		cur = c03Gen(rnd, i)
		if i%5 == 4 && !cur.Drop {
			// through the location with the configured Cache-Control response header; cases in which the
			// origin sent no lifetime of its own are left unjudged (the configured header supplies one)
			cur.URI = fmt.Sprintf("/c03cc/%d", i)
			if cur.Reason == "no-cache-control" || cur.Reason == "no-lifetime-directive" {
				cur.Share, cur.Class = "ambiguous", "ambiguous:configured-cache-control-supplies-lifetime"
			}
			r.Add("cases_through_location_with_configured_cache_control", 1)
		}
		c03Run(r, w, cur)
		if i%500 == 0 {
			w.Farm.Trim()
		}
	}
}

func init() { register("C03", "exploration", c03) }
