#!/usr/bin/env python3
"""Generates /verif/MANIFEST.json from the table below and validates it (python3-vt has jsonschema)."""
import json, subprocess, sys, os
HERE = os.path.dirname(os.path.dirname(os.path.abspath(__file__)))

# id: (engine, level, technique, level text, level note, design ref)
CHECKS = {
 "C11": ("inproc", "exploration",
   "online invariant monitor on hooked LRU state + eviction-event replay against a reference recency list",
   "Every size 1..64 (thorough 1..300) plus large sizes, four access patterns each, >=50*S operations: resident count read under each shard's own lock after every operation and every eviction event compared with a replayed per-shard LRU; then end-to-end through real servers with tiny caches (with and without a store). Holds on the executions produced, not a proof.",
   "trusts lru.Cache.Len read through the tag-guarded VerifStats hook and the OnEvicted callback of groupcache; sequential access at the dispatcher level (concurrent access is C06/C20)",
   "DESIGN.md 6/C11"),
}
ALL = ["C%02d" % i for i in range(1, 21)]
NOT_BUILT_REASON = "no check is registered for this property yet (framework under construction; see DESIGN.md Appendix B build order)"
NA = {}

def hook_commits():
    out = subprocess.run(["git", "-C", "/repo", "log", "--format=%H %s"], capture_output=True, text=True).stdout
    return [l.split()[0] for l in out.splitlines() if "verif hooks" in l][::-1]

m = {
 "version": 1,
 "setup_cmd": "./setup.sh",
 "hooks": {
   "guard": "verif",
   "enable": "go build -tags verif (the harness module replaces github.com/vicanso/pike with /repo, so every check rebuilds pike from /repo's working tree with the tag on)",
   "baseline_off_cmd": "./tools/baseline_off.sh",
   "source_commits": hook_commits(),
   "add_only": True,
 },
 "engines": [
   {"name": "inproc", "path": "harness/cmd/vrun", "kind_free_text": "driver process linking pike's packages (-tags verif, -race where concurrency matters); a real pike server is started on loopback exactly as main.update() does and driven over HTTP against scripted origins; virtual clock and hook points in-process",
    "serves_properties": [k for k, v in CHECKS.items() if v[0] == "inproc"]},
   {"name": "proc", "path": "harness/cmd/vrun", "kind_free_text": "the real pike binary built from /repo (-race -tags verif) with file config, admin port, badger directory, clock file; kill/restart/reload from outside",
    "serves_properties": [k for k, v in CHECKS.items() if v[0] == "proc"]},
 ],
 "checks": [],
 "not_applicable": [],
 "notes": "Technique family: runtime monitoring. Exit 0 = held on everything explored (KNOWN-FINDING lines allowed), 1 = unlisted violation (VIOLATION line), 2 = inconclusive (observed too little / watchdog), 3 = harness or build error. KNOWN_FINDINGS.json is read-only at run time.",
}
for pid in ALL:
    if pid in CHECKS:
        eng, level, tech, text, note, ref = CHECKS[pid]
        m["checks"].append({
          "property_id": pid,
          "quick_cmd": "./check %s quick" % pid,
          "thorough_cmd": "./check %s thorough" % pid,
          "evidence_file": "evidence/%s.json" % pid,
          "replay_cmd_template": "./check %s --replay {path}" % pid,
          "engine": eng,
          "level_claimed": {"category": level, "text": text, "design_ref": ref},
          "level_note": note,
          "technique": tech,
        })
    else:
        m["not_applicable"].append({"property_id": pid, "reason": NA.get(pid, NOT_BUILT_REASON)})
json.dump(m, open(os.path.join(HERE, "MANIFEST.json"), "w"), indent=1)
try:
    import jsonschema
    jsonschema.validate(m, json.load(open("/root/.vp/MANIFEST.schema.json")))
    for c in m["checks"]:
        p = os.path.join(HERE, c["evidence_file"])
        if os.path.exists(p):
            jsonschema.validate(json.load(open(p)), json.load(open("/root/.vp/EVIDENCE.schema.json")))
    print("MANIFEST valid; %d checks, %d not claimed" % (len(m["checks"]), len(m["not_applicable"])))
except ImportError:
    print("jsonschema not available, not validated")
