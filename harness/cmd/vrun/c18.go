package main

import (
	"fmt"
	"math/rand"
	"net/url"
	"sort"
	"strings"
	"sync"
	"sync/atomic"
	"time"

	"github.com/anishathalye/porcupine"
	"github.com/vicanso/pike/cache"
	"github.com/vicanso/pike/config"
	"github.com/vicanso/pike/server"
	"verifh/hx"
)

// C18: purge removes the entry everywhere and touches nothing else.

type c18World struct {
	*W
	admin  string
	caches []string          // cache names
	addrs  map[string]string // cache -> server addr
	stores map[string]*hx.MemStore
	// store latencies in nanoseconds (0 = none)
	slowDelete atomic.Int64
	slowSet    atomic.Int64
	slowGet    atomic.Int64
	getsBegun  atomic.Int64
	sparePort  int
}

func newC18World(r *hx.Run) *c18World {
	ports := hx.FreePorts(5)
	cw := &c18World{addrs: map[string]string{}, stores: map[string]*hx.MemStore{}}
	cw.caches = []string{"pa", "pb", "pc"}
	cw.W = newWorldCfg(r, 1, true, func(origins []string) *config.PikeConfig {
		cfg := &config.PikeConfig{
			Upstreams: []config.UpstreamConfig{{Name: "u", Servers: []config.UpstreamServerConfig{{Addr: origins[0]}}}},
			Locations: []config.LocationConfig{{Name: "l", Upstream: "u"}},
		}
		for i, name := range cw.caches {
			cc := config.CacheConfig{Name: name, Size: 100000, HitForPass: "3s"}
			if i > 0 {
				cc.Store = fmt.Sprintf("mem://c18/%d/%s", r.Seed, name)
				ms := hx.NewMemStore(cc.Store)
				ms.Script = cw.script
				cw.stores[name] = ms
			}
			cfg.Caches = append(cfg.Caches, cc)
			addr := srvAddr(ports[i])
			cw.addrs[name] = addr
			cfg.Servers = append(cfg.Servers, config.ServerConfig{Addr: addr, Locations: []string{"l"}, Cache: name})
		}
		return cfg
	})
	cw.admin = srvAddr(ports[3])
	cw.sparePort = ports[4]
	go server.StartAdminServer(server.AdminServerConfig{Addr: cw.admin})
	if err := hx.WaitListening(cw.admin, 5*time.Second); err != nil {
		r.Inconclusive("admin server not listening")
	}
	return cw
}

// script: the latencies of the scripted stores
func (cw *c18World) script(op, key string, cur []byte) hx.StoreFault {
	switch op {
	case "get":
		// (the value handed back was read before the delay: a slow read returns what was there when it began)
		cw.getsBegun.Add(1)
		if d := cw.slowGet.Load(); d > 0 {
			return hx.StoreFault{Kind: "delay", Delay: time.Duration(d)}
		}
	case "delete":
		if d := cw.slowDelete.Load(); d > 0 {
			return hx.StoreFault{Kind: "delay", Delay: time.Duration(d)}
		}
	case "set":
		if d := cw.slowSet.Load(); d > 0 {
			return hx.StoreFault{Kind: "delay", Delay: time.Duration(d)}
		}
	}
	return hx.StoreFault{}
}

// addCache: a reload of the running pike that only adds a cache (with a store) and a server bound to it
func (cw *c18World) addCache(r *hx.Run, name string) {
	cc := config.CacheConfig{Name: name, Size: 100000, HitForPass: "3s", Store: fmt.Sprintf("mem://c18/%d/%s", r.Seed, name)}
	ms := hx.NewMemStore(cc.Store)
	ms.Script = cw.script
	cw.stores[name] = ms
	cw.Cfg.Caches = append(cw.Cfg.Caches, cc)
	addr := srvAddr(cw.sparePort)
	cw.addrs[name] = addr
	cw.Cfg.Servers = append(cw.Cfg.Servers, config.ServerConfig{Addr: addr, Locations: []string{"l"}, Cache: name})
	cw.apply(r)
	cw.caches = append(cw.caches, name)
}

// purge through the real admin API; cacheName "" = every cache
func (cw *c18World) purge(key, cacheName string) *hx.Result {
	q := url.Values{}
	q.Set("key", key)
	if cacheName != "" {
		q.Set("cache", cacheName)
	}
	return cw.Cl.Do(hx.Req{Method: "DELETE", Addr: cw.admin, URI: "/cache?" + q.Encode()})
}

const c18Host = "c18.example"

func c18Key(uri string) string { return "GET " + c18Host + " " + uri }

// c18Basics: sequential purge semantics on all caches, with the store inspected
func c18Basics(r *hx.Run, cw *c18World, ps *plans, rnd *rand.Rand, n int, tag string, variants []string) {
	for i := 0; i < n && !r.TooMany(); i++ {
		// the key is "METHOD host request-URI" with the URI exactly as the client sent it (escapes kept)
		shape := []string{"", "", "?q=a%20b", "?q=c+d&x=1", "/a%2Fb.txt", "/caf%C3%A9?x=%26y", "?pct=100%25", "?session=" + strings.Repeat("0123456789abcdef", 48), "/" + strings.Repeat("deep/", 300) + "leaf"}[rnd.Intn(9)]
		if len(shape) > 500 {
			r.Add("purged_keys_longer_than_512_bytes", 1)
		}
		uri := fmt.Sprintf("/c18b%s/%d/%d", tag, r.Seed, i) + shape
		other := fmt.Sprintf("/c18b%s/%d/%d-neighbour", tag, r.Seed, i) + shape
		if shape != "" {
			r.Add("purged_keys_with_escapes_or_plus", 1)
		}
		a := ans{Kind: "cacheable", T: 50}
		if rnd.Intn(4) == 0 {
			a = ans{Kind: "nocache"}
		}
		ps.set(uri, &plan{Seq: []ans{a}})
		ps.set(other, &plan{Seq: []ans{{Kind: "cacheable", T: 50}}})
		models := map[string]*entryModel{}
		nb := map[string]*entryModel{}
		do := func(cn, u string, m *entryModel, ai ans) bool {
			before := cw.Farm.LogLen()
			res := cw.Cl.Do(hx.Req{Addr: cw.addrs[cn], Host: c18Host, URI: u})
			var fs []*hx.Fetch
			for _, f := range cw.Farm.LogSince(before) {
				if f.URI == u {
					fs = append(fs, f)
				}
			}
			kind, text := m.burstCheck(cw.Clock.Now(), []*hx.Result{res}, fs, func(*hx.Fetch) ans { return ai }, false)
			r.Add("requests", 1)
			if kind != "" {
				r.Violate(kind, map[string]string{"mode": "purge_basics"}, text, res.Brief(), map[string]interface{}{"uri": u, "cache": cn, "i": i})
				return false
			}
			return true
		}
		for _, cn := range cw.caches {
			models[cn] = &entryModel{HFP: 3, TolerateStale: true}
			nb[cn] = &entryModel{HFP: 3, TolerateStale: true}
			if !do(cn, uri, models[cn], a) || !do(cn, uri, models[cn], a) || !do(cn, other, nb[cn], ans{Kind: "cacheable", T: 50}) {
				return
			}
		}
		// the purge under test
		variant := variants[rnd.Intn(len(variants))]
		target := cw.caches[rnd.Intn(len(cw.caches))]
		cs := map[string]interface{}{"uri": uri, "variant": variant, "target": target, "answer": a}
		var pr *hx.Result
		if i%4 == 0 {
			// the store's delete takes 25 ms: when the purge is acknowledged the record must be gone all the same
			cw.slowDelete.Store(int64(25 * time.Millisecond))
			r.Add("basic_purges_with_a_slow_store_delete", 1)
		}
		switch variant {
		case "named":
			pr = cw.purge(c18Key(uri), target)
			models[target].State = stNone
		case "named_twice":
			pr = cw.purge(c18Key(uri), target)
			pr = cw.purge(c18Key(uri), target)
			models[target].State = stNone
		case "unnamed":
			pr = cw.purge(c18Key(uri), "")
			for _, m := range models {
				m.State = stNone
			}
		case "absent_cache":
			pr = cw.purge(c18Key(uri), "no-such-cache")
		case "absent_key":
			pr = cw.purge(c18Key(uri+"/absent"), target)
		}
		cw.slowDelete.Store(0)
		r.Eval(1)
		r.Add("purge_"+variant, 1)
		if pr.Err != nil || pr.Status != 204 {
			r.Violate("purge_failed", map[string]string{"variant": variant}, fmt.Sprintf("purge answered %d %v", pr.Status, pr.Err), pr.Brief(), cs)
			return
		}
		// persisted copies: gone where purged, untouched elsewhere
		for cn, st := range cw.stores {
			_, have := st.Peek(c18Key(uri))
			purged := variant == "unnamed" || ((variant == "named" || variant == "named_twice") && target == cn)
			if purged && have {
				r.Violate("persisted_copy_survives_purge", map[string]string{"variant": variant}, "the store still holds the record of the purged key (cache "+cn+")", nil, cs)
				return
			}
			if !purged && !have {
				r.Violate("purge_removed_other_record", map[string]string{"variant": variant}, "a record that was not purged is gone from the store (cache "+cn+")", nil, cs)
				return
			}
			if _, ok := st.Peek(c18Key(other)); !ok {
				r.Violate("purge_removed_other_record", map[string]string{"variant": variant}, "the neighbour key's record is gone (cache "+cn+")", nil, cs)
				return
			}
			r.Add("store_inspections", 1)
		}
		// next requests: purged => upstream again; everything else unchanged
		for _, cn := range cw.caches {
			if !do(cn, uri, models[cn], a) || !do(cn, other, nb[cn], ans{Kind: "cacheable", T: 50}) {
				return
			}
		}
		r.Distinct(fmt.Sprintf("basics%s %s %s %s", tag, variant, target, a.Kind))
		if i < 3 {
			r.Sample(cs)
		}
		ps.del(uri)
		ps.del(other)
	}
}

// c18Directed: purge while the fetch is held at the origin must neither block nor strand waiters
func c18Directed(r *hx.Run, cw *c18World, ps *plans, rnd *rand.Rand, n int) {
	for i := 0; i < n && !r.TooMany(); i++ {
		uri := fmt.Sprintf("/c18d/%d/%d", r.Seed, i)
		key := c18Key(uri)
		cn := cw.caches[i%len(cw.caches)]
		gate := make(chan struct{})
		ps.set(uri, &plan{Seq: []ans{{Kind: "cacheable", T: 50}}, Gate: func(f *hx.Fetch) <-chan struct{} {
			if f.Nth == 1 {
				return gate
			}
			return nil
		}})
		nw := 1 + rnd.Intn(5)
		baseReg := cw.Pts.Count("get.registered")
		rq := hx.Req{Addr: cw.addrs[cn], Host: c18Host, URI: uri, Timeout: 20 * time.Second}
		res := make([]*hx.Result, nw+1)
		var wg sync.WaitGroup
		wg.Add(1)
		go func() { defer wg.Done(); res[0] = cw.Cl.Do(rq) }()
		if !hx.WaitUntil(15*time.Second, func() bool { return cw.Farm.InflightKey(key) == 1 }) {
			r.InconclusiveCase("C18 directed: fetch not at origin")
			close(gate)
			wg.Wait()
			continue
		}
		for j := 1; j <= nw; j++ {
			wg.Add(1)
			go func(j int) { defer wg.Done(); res[j] = cw.Cl.Do(rq) }(j)
		}
		hx.WaitUntil(15*time.Second, func() bool { return cw.Pts.Count("get.registered")-baseReg >= int64(nw) })
		name := cn
		if i%2 == 1 {
			name = ""
		}
		pdone := make(chan *hx.Result, 1)
		go func() { pdone <- cw.purge(key, name) }()
		var pr *hx.Result
		select {
		case pr = <-pdone:
		case <-time.After(15 * time.Second):
		}
		stillHeld := cw.Farm.InflightKey(key) == 1
		releaseSeq := hx.Seq()
		close(gate)
		cs := map[string]interface{}{"uri": uri, "cache": cn, "waiters": nw, "purge_named": name != ""}
		r.Eval(1)
		r.Add("purges_during_held_fetch", 1)
		if pr == nil {
			pr = <-pdone
			hangSeen(r)
			r.Violate("purge_blocked_behind_fetch", nil, "the purge did not return while the fetch was held at the origin", pr.Brief(), cs)
		} else if !(pr.RetSeq < releaseSeq && stillHeld) {
			r.InconclusiveCase("C18 directed: fetch ended before the purge was observed")
		} else if pr.Status != 204 {
			r.Violate("purge_failed", map[string]string{"variant": "during_fetch"}, fmt.Sprintf("purge answered %d", pr.Status), pr.Brief(), cs)
		}
		all := make(chan struct{})
		go func() { wg.Wait(); close(all) }()
		select {
		case <-all:
		case <-time.After(20 * time.Second):
			hangSeen(r)
			r.Violate("waiters_stranded_by_purge", nil, "requests of the purged in-flight fetch never returned", map[string]interface{}{"blocked_goroutines": pikeGoroutines()}, cs)
			return
		}
		for _, x := range res {
			if x.Err != nil || x.Status != 200 || !x.HasIdent || x.Ident.URI != uri {
				r.Violate("waiter_of_purged_fetch_failed", nil, "a request coalesced on the purged fetch was not answered correctly", x.Brief(), cs)
			}
		}
		r.Add("waiters_released_after_purge", int64(nw))
		r.Distinct(fmt.Sprintf("directed %s named=%v nw=%d", cn, name != "", nw))
		// afterwards the key is served normally
		probe := cw.Cl.Do(rq)
		if probe.Err != nil || probe.Status != 200 {
			r.Violate("followup_not_served", nil, "request after purge+fetch failed", probe.Brief(), cs)
		}
		// information only: the purge overlapped the fetch, so either order is a legal outcome (the fetch's
		// response may be the key's entry afterwards, or the key may be cold again)
		kindOfCache := "memory_only"
		if _, ok := cw.stores[cn]; ok {
			kindOfCache = "with_store"
		}
		r.Add("request_after_purge_overlapping_a_fetch:"+kindOfCache+":"+probe.Label, 1)
		ps.del(uri)
	}
}

// c18SlowStore: purges against a store whose delete (or set) is slow
func c18SlowStore(r *hx.Run, cw *c18World, ps *plans, rnd *rand.Rand, n int) {
	for i := 0; i < n && !r.TooMany(); i++ {
		cn := []string{"pb", "pc"}[i%2]
		uri := fmt.Sprintf("/c18s/%d/%d", r.Seed, i)
		key := c18Key(uri)
		ps.set(uri, &plan{Seq: []ans{{Kind: "cacheable", T: 500}}})
		rq := hx.Req{Addr: cw.addrs[cn], Host: c18Host, URI: uri, Timeout: 20 * time.Second}
		cs := map[string]interface{}{"uri": uri, "cache": cn}
		if i%4 < 2 {
			// (a) slow delete: a lookup arrives while the purge is between LRU removal and the end of the store delete
			first := cw.Cl.Do(rq)
			if first.Label != "fetching" {
				r.InconclusiveCase("C18 slow store: first request not a fetch")
				continue
			}
			cw.slowDelete.Store(int64(60 * time.Millisecond))
			base := cw.Pts.Count("purge.removed")
			pdone := make(chan *hx.Result, 1)
			go func() { pdone <- cw.purge(key, cn) }()
			hx.WaitUntil(5*time.Second, func() bool { return cw.Pts.Count("purge.removed") > base })
			during := cw.Cl.Do(rq) // overlaps the purge: either order is fine
			pr := <-pdone
			cw.slowDelete.Store(0)
			after := cw.Cl.Do(rq)
			r.Eval(1)
			r.Add("lookups_during_slow_store_delete", 1)
			cs["variant"] = "lookup_during_slow_delete"
			if pr.Err != nil || pr.Status != 204 || during.Err != nil || after.Err != nil {
				r.Violate("purge_failed", map[string]string{"variant": "slow_delete"}, "purge or request failed with a slow store delete", map[string]interface{}{"purge": pr.Brief(), "during": during.Brief(), "after": after.Brief()}, cs)
				continue
			}
			if after.Label == "hit" && after.FetchID == first.FetchID {
				r.Violate("purged_version_served_after_purge_completed", map[string]string{"variant": "slow_delete"}, "a request issued after the purge had completed is answered from the purged version (it was reloaded from the store while the delete was pending)", map[string]interface{}{"first": first.Brief(), "during_purge": during.Brief(), "after_purge": after.Brief()}, cs)
				continue
			}
			r.Distinct(fmt.Sprintf("slow_delete %s during=%s", cn, during.Label))
		} else if i%4 == 3 {
			// (c) a waiter is answered while the store write of the fetch is still under way, and the purge is called
			// after that answer: the response somebody has already seen is gone for good once the purge returns
			gate := make(chan struct{})
			ps.set(uri, &plan{Seq: []ans{{Kind: "cacheable", T: 500}}, Gate: func(*hx.Fetch) <-chan struct{} { return gate }})
			cw.slowSet.Store(int64(300 * time.Millisecond))
			fch, wch := make(chan *hx.Result, 1), make(chan *hx.Result, 1)
			go func() { fch <- cw.Cl.Do(rq) }()
			okF := hx.WaitUntil(10*time.Second, func() bool { return cw.Farm.InflightKey(key) == 1 })
			reg := cw.Pts.Count("get.registered")
			go func() { wch <- cw.Cl.Do(rq) }()
			okW := hx.WaitUntil(10*time.Second, func() bool { return cw.Pts.Count("get.registered") > reg })
			close(gate)
			wres := <-wch
			pr := cw.purge(key, cn)
			cw.slowSet.Store(0)
			fres := <-fch
			time.Sleep(50 * time.Millisecond)
			_, have := cw.stores[cn].Peek(key)
			after := cw.Cl.Do(rq)
			if !okF || !okW || wres.Label != "hit" || fres.Label != "fetching" {
				r.InconclusiveCase("C18 slow store: no waiter answered from the fetch")
				ps.del(uri)
				continue
			}
			r.Eval(1)
			r.Add("purges_after_a_waiter_was_answered_with_the_store_write_pending", 1)
			cs["variant"] = "purge_after_waiter_answer_slow_set"
			if wres.Err != nil || fres.Err != nil || pr.Err != nil || pr.Status != 204 || after.Err != nil {
				r.Violate("purge_failed", map[string]string{"variant": "waiter_slow_set"}, "purge or request failed with a slow store set", nil, cs)
				continue
			}
			wit := map[string]interface{}{"fetcher": fres.Brief(), "waiter_answered_before_the_purge_was_called": wres.Brief(), "purge": pr.Brief(), "after": after.Brief()}
			if have {
				r.Violate("persisted_copy_survives_purge", map[string]string{"variant": "waiter_slow_set"}, "a waiter had been answered from the fetch, then the key was purged; the fetch's store write landed after the purge had completed and the record is back", wit, cs)
				continue
			}
			if after.Label == "hit" && after.FetchID == fres.FetchID {
				r.Violate("purged_version_served_after_purge_completed", map[string]string{"variant": "waiter_slow_set"}, "request after the purge answered from the response a waiter had received before the purge was called", wit, cs)
				continue
			}
			r.Distinct(fmt.Sprintf("waiter_slow_set %s", cn))
		} else {
			// (b) slow set: purge right after the fill; the persisted copy must not reappear
			// usually 40 ms; one case in sixteen stalls for seconds (a store that hangs and then recovers)
			stall := 40 * time.Millisecond
			if i%16 == 2 {
				stall = 2300 * time.Millisecond
				r.Add("store_sets_stalling_for_seconds", 1)
			}
			cw.slowSet.Store(int64(stall))
			first := cw.Cl.Do(rq)
			pr := cw.purge(key, cn)
			cw.slowSet.Store(0)
			time.Sleep(stall + 50*time.Millisecond)
			_, have := cw.stores[cn].Peek(key)
			after := cw.Cl.Do(rq)
			r.Eval(1)
			r.Add("purges_right_after_fill_with_slow_store_set", 1)
			cs["variant"] = "purge_right_after_fill_slow_set"
			if first.Err != nil || pr.Err != nil || pr.Status != 204 || after.Err != nil {
				r.Violate("purge_failed", map[string]string{"variant": "slow_set"}, "purge or request failed with a slow store set", nil, cs)
				continue
			}
			if have {
				r.Violate("persisted_copy_survives_purge", map[string]string{"variant": "slow_set"}, "the persisted copy reappeared after the purge had completed (late store write)", map[string]interface{}{"first": first.Brief(), "after": after.Brief()}, cs)
				continue
			}
			if after.Label == "hit" && after.FetchID == first.FetchID {
				r.Violate("purged_version_served_after_purge_completed", map[string]string{"variant": "slow_set"}, "request after the purge answered from the purged version", map[string]interface{}{"first": first.Brief(), "after": after.Brief()}, cs)
				continue
			}
			r.Distinct(fmt.Sprintf("slow_set %s", cn))
		}
		ps.del(uri)
	}
}

// c18Overlap: two identical unnamed purges overlap (the first is still busy with the slow store of another cache) and the
// key is fetched again in between; what the second purge finds when it is called must be gone when it returns
func c18Overlap(r *hx.Run, cw *c18World, ps *plans, n int) {
	for i := 0; i < n && !r.TooMany(); i++ {
		uri := fmt.Sprintf("/c18o/%d/%d", r.Seed, i)
		ps.set(uri, &plan{Seq: []ans{{Kind: "cacheable", T: 300}}})
		get := func(cn string) *hx.Result {
			return cw.Cl.Do(hx.Req{Addr: cw.addrs[cn], Host: c18Host, URI: uri})
		}
		ok := true
		for _, cn := range cw.caches {
			if a, b := get(cn), get(cn); a.Label != "fetching" || b.Label != "hit" {
				ok = false
			}
		}
		if !ok {
			r.InconclusiveCase("C18 overlap: the key did not become a hit everywhere")
			ps.del(uri)
			continue
		}
		cw.slowDelete.Store(int64(300 * time.Millisecond))
		first := make(chan *hx.Result, 1)
		go func() { first <- cw.purge(c18Key(uri), "") }()
		// two stores with a 300 ms delete: after 350 ms the first purge is through with at least one cache and not with all
		time.Sleep(350 * time.Millisecond)
		// the requests in between run side by side: the one on the cache whose store delete is pending waits for it
		// (the purge holds the shard), so only the caches whose request was answered before the second purge is
		// called are judged
		type lab struct {
			cn, label string
		}
		answered := make(chan lab, len(cw.caches))
		for _, cn := range cw.caches {
			go func(cn string) { answered <- lab{cn, get(cn).Label} }(cn)
		}
		time.Sleep(60 * time.Millisecond)
		refill := map[string]string{}
	drain:
		for {
			select {
			case l := <-answered:
				refill[l.cn] = l.label
			default:
				break drain
			}
		}
		var p1 *hx.Result
		overlapped := true
		select {
		case p1 = <-first:
			overlapped = false
		default:
		}
		p2 := cw.purge(c18Key(uri), "")
		if p1 == nil {
			p1 = <-first
		}
		cw.slowDelete.Store(0)
		late := map[string]string{}
		for len(refill)+len(late) < len(cw.caches) {
			l := <-answered
			late[l.cn] = l.label
		}
		after := map[string]string{}
		for _, cn := range cw.caches {
			after[cn] = get(cn).Label
		}
		r.Eval(1)
		cs := map[string]interface{}{"uri": uri, "variant": "overlapping_identical_purges", "overlapped": overlapped, "answered_before_the_second_purge": refill, "answered_during_it(not judged)": late, "labels_after_second_purge": after}
		if overlapped {
			r.Add("identical_purges_overlapping", 1)
			r.Distinct(fmt.Sprintf("overlap %v", refill))
			r.Add("caches_judged_after_overlapping_purges", int64(len(refill)))
		}
		if p1.Err != nil || p1.Status != 204 || p2.Err != nil || p2.Status != 204 {
			r.Violate("purge_failed", map[string]string{"variant": "overlap"}, "one of two overlapping purges failed", map[string]interface{}{"first": p1.Brief(), "second": p2.Brief()}, cs)
		}
		for cn := range refill {
			if after[cn] == "hit" {
				r.Violate("purged_version_served_after_purge_completed", map[string]string{"variant": "overlap"}, "cache "+cn+": a request issued after the second of two overlapping identical purges had completed is a hit on an entry that existed before that purge was called", nil, cs)
				break
			}
		}
		if i == 0 {
			r.Sample(cs)
		}
		ps.del(uri)
	}
}

// c18Porcupine: concurrent requests, purges, clock advances; per (cache,key) linearizability
func c18Porcupine(r *hx.Run, cw *c18World, ps *plans, rnd *rand.Rand, n int) {
	for hi := 0; hi < n && !r.TooMany(); hi++ {
		t := int64(2 + rnd.Intn(3))
		uris := []string{fmt.Sprintf("/c18p/%d/%d/a", r.Seed, hi), fmt.Sprintf("/c18p/%d/%d/b", r.Seed, hi)}
		for _, u := range uris {
			ps.set(u, &plan{Seq: []ans{{Kind: "cacheable", T: t}}})
		}
		start := cw.Clock.Now()
		type part struct{ cache, uri string }
		var mu sync.Mutex
		ops := map[part][]porcupine.Operation{}
		var adv []porcupine.Operation
		var wg sync.WaitGroup
		seeds := make([]int64, 10)
		for i := range seeds {
			seeds[i] = rnd.Int63()
		}
		clients := 6
		for c := 0; c < clients; c++ {
			wg.Add(1)
			go func(c int) {
				defer wg.Done()
				lr := rand.New(rand.NewSource(seeds[c]))
				for i := 0; i < 7; i++ {
					p := part{cw.caches[lr.Intn(len(cw.caches))], uris[lr.Intn(2)]}
					res := cw.Cl.Do(hx.Req{Addr: cw.addrs[p.cache], Host: c18Host, URI: p.uri, Proc: c})
					mu.Lock()
					ops[p] = append(ops[p], reqOp(c, res, 3, t))
					mu.Unlock()
					if lr.Intn(2) == 0 {
						time.Sleep(time.Duration(lr.Intn(300)) * time.Microsecond)
					}
				}
			}(c)
		}
		for pg := 0; pg < 2; pg++ {
			wg.Add(1)
			go func(pg int) {
				defer wg.Done()
				lr := rand.New(rand.NewSource(seeds[clients+pg]))
				for i := 0; i < 4; i++ {
					time.Sleep(time.Duration(50+lr.Intn(500)) * time.Microsecond)
					u := uris[lr.Intn(2)]
					key := c18Key(u)
					name := ""
					switch lr.Intn(4) {
					case 0:
					case 1:
						name = "no-such-cache"
					default:
						name = cw.caches[lr.Intn(len(cw.caches))]
					}
					if lr.Intn(6) == 0 {
						key += "/absent"
					}
					pr := cw.purge(key, name)
					if pr.Err != nil || pr.Status != 204 {
						r.Violate("purge_failed", map[string]string{"variant": "concurrent"}, fmt.Sprintf("purge answered %d %v", pr.Status, pr.Err), pr.Brief(), nil)
						continue
					}
					if key != c18Key(u) {
						continue
					}
					op := porcupine.Operation{ClientId: clients + pg, Input: pIn{Op: "purge"}, Call: pr.CallSeq, Output: pOut{}, Return: pr.RetSeq}
					mu.Lock()
					for _, cn := range cw.caches {
						if name == "" || name == cn {
							ops[part{cn, u}] = append(ops[part{cn, u}], op)
						}
					}
					mu.Unlock()
					r.Add("concurrent_purges", 1)
				}
			}(pg)
		}
		wg.Add(1)
		go func() {
			defer wg.Done()
			lr := rand.New(rand.NewSource(seeds[8]))
			for i := 0; i < 4; i++ {
				time.Sleep(time.Duration(150+lr.Intn(600)) * time.Microsecond)
				d := int64(1 + lr.Intn(int(t)))
				call := hx.Seq()
				cw.Clock.Advance(d)
				ret := hx.Seq()
				mu.Lock()
				adv = append(adv, porcupine.Operation{ClientId: 9, Input: pIn{Op: "advance", D: d}, Call: call, Output: pOut{}, Return: ret})
				mu.Unlock()
			}
		}()
		wg.Wait()
		for p, list := range ops {
			h := append(append([]porcupine.Operation{}, list...), adv...)
			verdict := porcupineCheck(start, h)
			r.Eval(1)
			r.Add("porcupine_partitions", 1)
			r.Add("porcupine_ops", int64(len(h)))
			r.Add("porcupine_"+verdict, 1)
			purges := 0
			for _, o := range list {
				if o.Input.(pIn).Op == "purge" {
					purges++
				}
			}
			if purges > 0 {
				r.Distinct(fmt.Sprintf("porcupine %d %v", hi, p))
			}
			if verdict == "illegal" {
				r.Violate("history_not_linearizable", map[string]string{"mode": "porcupine"}, fmt.Sprintf("history of cache %s key %s is not linearizable against the entry model with purge => none", p.cache, p.uri), describeOps(h), map[string]interface{}{"cache": p.cache, "uri": p.uri, "T": t})
			}
		}
		for _, u := range uris {
			ps.del(u)
		}
		cw.Clock.Advance(t + 4)
	}
}

// c18SlowRead: the key is persisted but not resident (as after a restart or an eviction); a request's store read is
// slow; the purge completes while that read is pending; a request issued after the purge must not be answered
// from the purged version (whatever the first request, which overlaps the purge, is given).
func c18SlowRead(r *hx.Run, cw *c18World, ps *plans, n int) {
	for i := 0; i < n && !r.TooMany(); i++ {
		cn := []string{"pb", "pc"}[i%2]
		uri := fmt.Sprintf("/c18r/%d/%d", r.Seed, i)
		key := c18Key(uri)
		ps.set(uri, &plan{Seq: []ans{{Kind: "cacheable", T: 500}}})
		rq := hx.Req{Addr: cw.addrs[cn], Host: c18Host, URI: uri, Timeout: 20 * time.Second}
		cs := map[string]interface{}{"uri": uri, "cache": cn, "variant": "purge_during_slow_store_read"}
		first := cw.Cl.Do(rq)
		rec, have := cw.stores[cn].Peek(key)
		if first.Label != "fetching" || !have {
			r.InconclusiveCase("C18 slow read: first request not a fetch or nothing persisted")
			continue
		}
		rec = append([]byte{}, rec...)
		// persisted, not resident: the entry is purged and the record put back as it was
		if pr := cw.purge(key, cn); pr.Err != nil || pr.Status != 204 {
			r.InconclusiveCase("C18 slow read: preparing purge failed")
			continue
		}
		cw.stores[cn].Put(key, rec)
		cw.slowGet.Store(int64(400 * time.Millisecond))
		g0 := cw.getsBegun.Load()
		r1 := make(chan *hx.Result, 1)
		go func() { r1 <- hx.NewClient(cw.Clock.Now).Do(rq) }()
		began := hx.WaitUntil(5*time.Second, func() bool { return cw.getsBegun.Load() > g0 })
		pr := cw.purge(key, cn) // completes while the read is pending
		after := cw.Cl.Do(rq)
		cw.slowGet.Store(0)
		during := <-r1
		if !began {
			r.InconclusiveCase("C18 slow read: the store read did not begin")
			continue
		}
		r.Eval(1)
		r.Add("purges_completed_during_a_pending_store_read", 1)
		wit := map[string]interface{}{"first": first.Brief(), "overlapping_the_purge": during.Brief(), "purge": pr.Brief(), "after_purge": after.Brief()}
		if pr.Err != nil || pr.Status != 204 || during.Err != nil || after.Err != nil {
			r.Violate("purge_failed", map[string]string{"variant": "slow_read"}, "purge or request failed with a slow store read", wit, cs)
			continue
		}
		if after.Label == "hit" && after.FetchID == first.FetchID {
			r.Violate("purged_version_served_after_purge_completed", map[string]string{"variant": "slow_read"}, "a request issued after the purge had completed is answered from the purged version (it shared a store read begun before the purge)", wit, cs)
			continue
		}
		r.Distinct(fmt.Sprintf("slow_read %s during=%s", cn, during.Label))
	}
}

// c18FullShards: a cache of 8 entries (every shard holds one) is filled; purges of keys that are not resident
// (named and unnamed, through the real admin API and directly) must leave the resident set exactly as it was.
func c18FullShards(r *hx.Run, rounds int) {
	w := newSimpleWorld(r, hx.SimpleCfg{CacheName: "c18small", CacheSize: 8, HitForPass: "3s"}, 1, true)
	defer w.Farm.Close()
	w.Farm.SetScript(func(f *hx.Fetch) *hx.Reply { return replyOf(f, ans{Kind: "cacheable", T: 600}) })
	for round := 0; round < rounds && !r.TooMany(); round++ {
		var keys []string
		for k := 0; k < 40; k++ {
			uri := fmt.Sprintf("/small/%d/%d/%d", r.Seed, round, k)
			w.Cl.Get(w.Addr, "c18.example", uri)
			keys = append(keys, "GET c18.example "+uri)
		}
		resident := func() map[string]bool {
			m := map[string]bool{}
			for _, k := range keys {
				if st, ok := entryState("c18small", k); ok && st.Exists {
					m[k] = true
				}
			}
			return m
		}
		before := resident()
		for a := 0; a < 64; a++ {
			absent := fmt.Sprintf("GET c18.example /small/absent/%d/%d/%d", r.Seed, round, a)
			if a%2 == 0 {
				if !purgeDirect(r, "c18small", absent, map[string]string{"mode": "full_shards"}) {
					return
				}
			} else {
				cache.RemoveHTTPCache("", []byte(absent))
			}
		}
		after := resident()
		r.Eval(1)
		r.Add("purges_of_absent_keys_into_full_shards", 64)
		r.Add("resident_entries_watched_across_absent_key_purges", int64(len(before)))
		lost := []string{}
		for k := range before {
			if !after[k] {
				lost = append(lost, k)
			}
		}
		if len(lost) > 0 || len(before) == 0 {
			sort.Strings(lost)
			r.Violate("purge_touched_another_key", map[string]string{"mode": "full_shards"},
				fmt.Sprintf("%d of %d resident entries of a full 8-entry cache are gone after 64 purges of keys that were not in the cache", len(lost), len(before)),
				map[string]interface{}{"lost": lost}, map[string]interface{}{"round": round, "cache_size": 8})
			return
		}
		// and one of them is still answered as a hit, without any upstream contact
		for k := range before {
			uri := strings.TrimPrefix(k, "GET c18.example ")
			n0 := w.Farm.LogLen()
			res := w.Cl.Get(w.Addr, "c18.example", uri)
			if res.Err != nil || res.Label != "hit" || w.Farm.LogLen() != n0 {
				r.Violate("purge_touched_another_key", map[string]string{"mode": "full_shards"}, fmt.Sprintf("resident key answered %q after purges of absent keys", res.Label), res.Brief(), map[string]interface{}{"key": k})
				return
			}
			break
		}
		r.Distinct(fmt.Sprintf("full_shards/%d", len(before)))
	}
}

func c18(r *hx.Run) {
	r.MaxViol = 6 // violations here usually cost a watchdog period each
	r.Rule = "three caches (one without store, two with scripted in-memory stores) behind three servers sharing the client-supplied Host; purges through the real admin DELETE /cache; keys with percent escapes, plus signs and of more than 512 bytes; store writes that stall for 2.3 s and then land. basics: fetch+hit on every cache, one purge variant {named, unnamed, absent cache, absent key, named twice} (in a quarter of the cases every store delete takes 25 ms), store records inspected, next request per cache and for a neighbour key judged by the entry model; slow store: a lookup issued while the purge is between LRU removal and the end of a slow store delete, a purge right after a fill whose store write is slow, and a purge called after a waiter was answered while the fetch's store write is still under way (afterwards the key must not be answered from the purged version and the record must be gone); directed: purge while the fetch is held at the origin with 1-5 parked waiters (must return before the release, nobody stranded); overlap: a second identical unnamed purge called while the first is still busy with a slow store, the key fetched again in between - after the second returns no cache may answer a hit; added cache: a reload adds a fourth cache and server, then the basics again with unnamed and named purges; porcupine: 6 clients + 2 purgers + clock advancer, per (cache,key) linearizability; slow read: a persisted, non-resident key whose store read takes 400 ms, the purge completes while the read is pending, the request after the purge must not be answered from the purged version; full shards: a cache of 8 entries is filled with 40 keys, then 64 keys that are not resident are purged (named and unnamed) and the resident set must be unchanged and still answer hits. Non-trivial = case with a purge of a present key; distinct = variant/partition."
	r.Assume = []string{"virtual clock, hook points", "the in-memory store stands for the persistent store (badger itself in C08)", "-race build"}
	rnd := rand.New(rand.NewSource(r.Seed))
	cw := newC18World(r)
	defer cw.Farm.Close()
	cw.Pts = hx.InstallPoints(r.Seed)
	ps := &plans{}
	cw.Farm.SetScript(ps.script)
	allVariants := []string{"named", "unnamed", "absent_cache", "absent_key", "named_twice"}
	c18Basics(r, cw, ps, rnd, r.Pick(100, 10000), "", allVariants)
	c18Directed(r, cw, ps, rnd, r.Pick(40, 4000))
	c18SlowStore(r, cw, ps, rnd, r.Pick(24, 1500))
	c18SlowRead(r, cw, ps, r.Pick(6, 300))
	cw.Pts.SetJitter([]string{"disp.got", "purge.removed", "get.registered", "get.woken"}, 200)
	c18Porcupine(r, cw, ps, rnd, r.Pick(60, 10000))
	cw.Pts.SetJitter(nil, 0)
	c18Overlap(r, cw, ps, r.Pick(3, 40))
	// a reload of the running pike adds a cache: purges (above all the unnamed ones) must reach it as well
	cw.addCache(r, "pd")
	r.Add("caches_added_by_reload", 1)
	c18Basics(r, cw, ps, rnd, r.Pick(10, 300), "-added", []string{"unnamed", "unnamed", "named"})
	r.Set("points_hit", cw.Pts.Counts())
	// a cache whose shards are all full: purges of keys that are not there must not push anything out
	hx.UninstallPoints()
	c18FullShards(r, r.Pick(3, 60))
	checkRaceLog(r)
}

func init() { register("C18", "exploration", c18) }
