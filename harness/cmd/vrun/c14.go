package main

import (
	"fmt"
	"math/rand"
	"net/http"
	"strings"
	"sync"
	"sync/atomic"
	"time"

	"github.com/vicanso/pike/config"
	"github.com/vicanso/pike/location"
	"verifh/hx"
)

// C14: routing. Reference: candidates = named AND host-ok AND prefix-ok; the winner must be a
// candidate of the best class (prefix+host, prefix, host, none); none matching => no location.

type locSpec struct {
	Name     string
	Hosts    []string
	Prefixes []string
	// BadRewrites: the location carries rewrite rules none of which is usable (end-to-end configurations only)
	BadRewrites bool
}

func locClass(l locSpec) int {
	c := 8
	if len(l.Prefixes) != 0 {
		c -= 4
	}
	if len(l.Hosts) != 0 {
		c -= 2
	}
	return c
}

func locMatches(l locSpec, host, uri string) bool {
	if len(l.Hosts) != 0 {
		ok := false
		for _, h := range l.Hosts {
			if h == host {
				ok = true
			}
		}
		if !ok {
			return false
		}
	}
	if len(l.Prefixes) != 0 {
		ok := false
		for _, p := range l.Prefixes {
			if strings.HasPrefix(uri, p) {
				ok = true
			}
		}
		if !ok {
			return false
		}
	}
	return true
}

// refRoute returns the set of acceptable winners (indexes) for the query
func refRoute(locs []locSpec, names []string, host, uri string) map[int]bool {
	best := 99
	named := func(n string) bool {
		for _, x := range names {
			if x == n {
				return true
			}
		}
		return false
	}
	for _, l := range locs {
		if named(l.Name) && locMatches(l, host, uri) && locClass(l) < best {
			best = locClass(l)
		}
	}
	out := map[int]bool{}
	for i, l := range locs {
		if named(l.Name) && locMatches(l, host, uri) && locClass(l) == best {
			out[i] = true
		}
	}
	return out
}

func subsets(items []string) [][]string {
	var out [][]string
	for m := 0; m < 1<<len(items); m++ {
		var s []string
		for i, it := range items {
			if m&(1<<i) != 0 {
				s = append(s, it)
			}
		}
		out = append(out, s)
	}
	return out
}

func c14Check(r *hx.Run, locs []locSpec, names []string, host, uri string, ls *location.Locations) bool {
	got := ls.Get(host, uri, names...)
	want := refRoute(locs, names, host, uri)
	r.Eval(1)
	cs := map[string]interface{}{"locations": locs, "server_locations": names, "host": host, "uri": uri}
	if r.Evals%400000 == 1 {
		name := "<none>"
		if got != nil {
			name = got.Name
		}
		r.Sample(map[string]interface{}{"case": cs, "pike_chose": name, "acceptable": fmt.Sprint(want)})
	}
	if got == nil {
		if len(want) != 0 {
			r.Violate("no_location_although_one_matches", nil, "Get returned none although a named location matches", nil, cs)
			return false
		}
		return true
	}
	// identify the returned location by name+shape
	idx := -1
	for i, l := range locs {
		if l.Name == got.Name && fmt.Sprint(l.Hosts) == fmt.Sprint(got.Hosts) && fmt.Sprint(l.Prefixes) == fmt.Sprint(got.Prefixes) && want[i] {
			idx = i
		}
	}
	if idx < 0 {
		kind := "wrong_location"
		if len(want) == 0 {
			kind = "location_although_none_matches"
		}
		r.Violate(kind, nil, fmt.Sprintf("Get chose %q hosts=%v prefixes=%v which is not an acceptable winner", got.Name, got.Hosts, got.Prefixes), map[string]interface{}{"acceptable": want}, cs)
		return false
	}
	return true
}

func c14(r *hx.Run) {
	r.Rule = "exhaustive: every ordered tuple of <=3 location shapes (host subset of {h1,h2} x prefix subset of {/a,/a/b,/b}) x every subset of the location names x 15 queries ({h1,h2,h3} x {/a/x,/a/b/x,/b,/c,/}); sampled tuples of 4; random larger universes (prefix lengths 1..236, so that length differences inside and across classes are large; one location in four with a list of up to 16 prefixes that share stems and contain one another); then end-to-end configs (every second one applied while four clients keep sending requests) through a real server (incl. percent-encoded request URIs, which are matched as sent, and requests whose X-Forwarded-Host/Forwarded headers name another configured host) with one origin per location (which origin saw the request), locations whose only prefix is the catch-all /, locations whose rewrite rules are all unusable (they route all the same), and locations whose upstream has no server alive (the request fails, it is not handed to a less specific location). Non-trivial = lookup with >=2 matching named locations of different classes or no match; distinct = (shape tuple, names, query)."
	r.Assume = []string{"ties inside one class are left to pike (any member accepted)"}
	rnd := rand.New(rand.NewSource(r.Seed))
	hostSets := subsets([]string{"h1", "h2"})
	prefSets := subsets([]string{"/a", "/a/b", "/b"})
	var shapes []locSpec
	for _, h := range hostSets {
		for _, p := range prefSets {
			shapes = append(shapes, locSpec{Hosts: h, Prefixes: p})
		}
	}
	qHosts := []string{"h1", "h2", "h3"}
	qURIs := []string{"/a/x", "/a/b/x", "/b", "/c", "/"}
	nontrivial := int64(0)
	run := func(idx []int, exhaustiveNames bool) {
		locs := make([]locSpec, len(idx))
		opts := make([]location.Location, len(idx))
		allNames := make([]string, len(idx))
		for i, si := range idx {
			locs[i] = shapes[si]
			locs[i].Name = fmt.Sprintf("n%d", i)
			allNames[i] = locs[i].Name
			opts[i] = location.Location{Name: locs[i].Name, Hosts: locs[i].Hosts, Prefixes: locs[i].Prefixes}
		}
		ls := location.NewLocations(opts...)
		nameSets := subsets(allNames)
		if !exhaustiveNames {
			nameSets = [][]string{allNames, nameSets[rnd.Intn(len(nameSets))]}
		}
		for _, names := range nameSets {
			for _, h := range qHosts {
				for _, u := range qURIs {
					want := refRoute(locs, names, h, u)
					classes := map[int]bool{}
					matching := 0
					for i, l := range locs {
						for _, n := range names {
							if n == l.Name && locMatches(l, h, u) {
								classes[locClass(l)] = true
								matching++
							}
						}
						_ = i
					}
					if len(classes) >= 2 || (matching == 0 && len(names) > 0) {
						nontrivial++
						if nontrivial%997 == 0 {
							r.Distinct(fmt.Sprintf("%v|%v|%s|%s", idx, names, h, u))
						}
					}
					_ = want
					if !c14Check(r, locs, names, h, u, ls) && r.TooMany() {
						return
					}
				}
			}
		}
	}
	n := len(shapes)
	for a := 0; a < n && !r.TooMany(); a++ {
		run([]int{a}, true)
		for b := 0; b < n && !r.TooMany(); b++ {
			run([]int{a, b}, true)
			for c := 0; c < n && !r.TooMany(); c++ {
				// quick: names exhaustive for a stride of the triples, full set + one random subset otherwise
				run([]int{a, b, c}, r.Thorough() || (a+b+c)%4 == 0)
			}
		}
	}
	r.Set("exhaustive", true)
	r.Set("exhaustive_scope", "ordered tuples of <=3 shapes over 2 hosts x 3 prefixes, 15 queries; name subsets exhaustive in thorough, for 1/4 of the triples in quick")
	four := r.Pick(3000, 1000000)
	for i := 0; i < four && !r.TooMany(); i++ {
		run([]int{rnd.Intn(n), rnd.Intn(n), rnd.Intn(n), rnd.Intn(n)}, i%10 == 0)
	}
	r.Add("nontrivial_lookups", nontrivial)
	// duplicate names and larger random universes
	big := r.Pick(3000, 500000)
	for i := 0; i < big && !r.TooMany(); i++ {
		nl := 1 + rnd.Intn(8)
		hosts := []string{"a.com", "b.com", "a.com.cn", "c.org", "A.com"}
		long1 := "/api/v1/internal/reports/export/monthly"
		long2 := "/static/" + strings.Repeat("assets-and-bundles/", 12)
		prefs := []string{"/", "/api", "/api/", "/api/v1", "/apix", "/static", "/s", "/API", long1, long2}
		nested := []string{"/static/v2", "/static/v2/img", "/static/v2/img/icons", "/api/v1/a", "/api/v2", "/api/v10", "/s/1", "/s/10", "/s/2", "/apix/1/2", "/m", "/m/n", "/m/n/o", "/zz", "/zz/top", "/0"}
		locs := make([]locSpec, nl)
		opts := make([]location.Location, nl)
		for j := range locs {
			l := locSpec{Name: fmt.Sprintf("n%d", rnd.Intn(nl))} // duplicates possible
			for _, h := range hosts {
				if rnd.Intn(4) == 0 {
					l.Hosts = append(l.Hosts, h)
				}
			}
			for _, p := range prefs {
				if rnd.Intn(5) == 0 {
					l.Prefixes = append(l.Prefixes, p)
				}
			}
			if rnd.Intn(4) == 0 {
				// a long list of prefixes that share stems and contain one another, in random order
				for _, k := range rnd.Perm(len(nested)) {
					if rnd.Intn(5) != 0 {
						l.Prefixes = append(l.Prefixes, nested[k])
					}
				}
				if len(l.Prefixes) > 8 {
					r.Add("locations_with_more_than_8_prefixes", 1)
				}
			}
			locs[j] = l
			opts[j] = location.Location{Name: l.Name, Hosts: l.Hosts, Prefixes: l.Prefixes}
		}
		ls := location.NewLocations(opts...)
		var names []string
		for j := 0; j < nl; j++ {
			if rnd.Intn(3) != 0 {
				names = append(names, fmt.Sprintf("n%d", j))
			}
		}
		for q := 0; q < 6; q++ {
			h := append(hosts, "zzz")[rnd.Intn(len(hosts)+1)]
			u := []string{"/", "/api", "/api/v1/x?y=1", "/apix/1", "/static/a.js", "/s", "/other", "/API/x", long1 + "/2024.csv", long2 + "app.js", long1[:20], "/static/v3/logo.png", "/staticfiles", "/static/v2/x.js", "/api/v3", "/api/v1/b", "/s/3", "/m/x", "/m/n/p", "/zz/u", "/1"}[rnd.Intn(21)]
			c14Check(r, locs, names, h, u, ls)
		}
		r.Add("random_universe_configs", 1)
	}
	c14EndToEnd(r, rnd, shapes)
}

func c14EndToEnd(r *hx.Run, rnd *rand.Rand, shapes []locSpec) {
	nOrig := 4
	port := hx.FreePorts(1)[0]
	addr := srvAddr(port)
	var origins []string
	addr2 := srvAddr(hx.FreePorts(1)[0])
	var names2 []string
	// dead[i]: the upstream of location i has no server that answers (nobody listens on its port)
	dead := map[int]bool{}
	deadAddr := "http://" + srvAddr(hx.DeadPort())
	mk := func(locs []locSpec, names []string) *config.PikeConfig {
		cfg := &config.PikeConfig{Caches: []config.CacheConfig{{Name: "c", Size: 1000, HitForPass: "5m"}}}
		for i := 0; i < nOrig; i++ {
			a := origins[i]
			if dead[i] {
				a = deadAddr
			}
			cfg.Upstreams = append(cfg.Upstreams, config.UpstreamConfig{Name: fmt.Sprintf("u%d", i), Servers: []config.UpstreamServerConfig{{Addr: a}}})
		}
		for i, l := range locs {
			lc := config.LocationConfig{Name: l.Name, Upstream: fmt.Sprintf("u%d", i), Hosts: l.Hosts, Prefixes: l.Prefixes}
			if l.BadRewrites {
				// three colon-separated parts; a pattern that is no regular expression
				lc.Rewrites = []string{"/api/*:http://backend/$1", "^/a/(*:/$1"}
			}
			cfg.Locations = append(cfg.Locations, lc)
		}
		// a realistic bulk of other locations (with rewrite rules to compile) that no server lists
		for d := 0; d < 40; d++ {
			cfg.Locations = append(cfg.Locations, config.LocationConfig{Name: fmt.Sprintf("decoy%d", d), Upstream: "u0", Hosts: []string{fmt.Sprintf("decoy%d.example", d)},
				Prefixes: []string{fmt.Sprintf("/decoy/%d", d)}, Rewrites: []string{fmt.Sprintf("/decoy/%d/*/item/*:/v%d/$1/$2", d, d), "/legacy/*:/$1"}})
		}
		cfg.Servers = []config.ServerConfig{{Addr: addr, Locations: names, Cache: "c"}}
		if names2 != nil {
			// a second server of the same instance with its own list of locations
			cfg.Servers = append(cfg.Servers, config.ServerConfig{Addr: addr2, Locations: names2, Cache: "c"})
		}
		return cfg
	}
	w := newWorldCfg(r, nOrig, false, func(o []string) *config.PikeConfig {
		origins = o
		names2 = []string{"n0"}
		return mk([]locSpec{{Name: "n0"}}, []string{"n0"})
	})
	defer w.Farm.Close()
	w.Farm.SetScript(func(f *hx.Fetch) *hx.Reply {
		return &hx.Reply{Status: 200, Body: hx.IdentBody(f, 10, "text")}
	})
	configs := r.Pick(40, 1500)
	q := 0
	prevNl := 1
	var prevNames, prevNames2 []string
	for i := 0; i < configs && !r.TooMany(); i++ {
		nl := 1 + rnd.Intn(nOrig)
		keepLists := i%2 == 0 && i > 0 // same server lists as before, other location definitions
		if keepLists {
			nl = prevNl
		}
		locs := make([]locSpec, nl)
		var names []string
		dead = map[int]bool{}
		for j := range locs {
			locs[j] = shapes[rnd.Intn(len(shapes))]
			if rnd.Intn(5) == 0 {
				// the catch-all prefix is a prefix like any other: it puts the location into the prefix classes
				locs[j].Prefixes = [][]string{{"/"}, {"/", "/a"}, {"/ "}, {"/", "/"}}[rnd.Intn(4)]
				if locs[j].Prefixes[0] == "/ " {
					locs[j].Prefixes = []string{"/"}
				}
			}
			if i%3 == 2 && rnd.Intn(3) == 0 {
				dead[j] = true
			}
			if rnd.Intn(4) == 0 {
				locs[j].BadRewrites = true
				r.Add("e2e_locations_with_unusable_rewrites", 1)
			}
			locs[j].Name = fmt.Sprintf("n%d", j)
			if rnd.Intn(4) != 0 {
				names = append(names, locs[j].Name)
			}
		}
		if len(names) == 0 {
			names = []string{locs[0].Name}
		}
		// (the second server is part of every configuration: removing and re-adding a listener within its
		// 10 s graceful close is the known finding of C16, not the subject here)
		names2 = nil
		for j := range locs {
			if rnd.Intn(2) == 0 {
				names2 = append(names2, locs[j].Name)
			}
		}
		if len(names2) == 0 {
			names2 = []string{locs[len(locs)-1].Name}
		}
		if keepLists {
			names, names2 = prevNames, prevNames2
		}
		prevNl, prevNames, prevNames2 = nl, names, names2
		w.Cfg = mk(locs, names)
		if i%2 == 0 {
			// requests keep arriving while the new configuration is applied (they are not judged: the server
			// is between two configurations); afterwards routing follows the new configuration only
			var stopTraffic atomic.Bool
			var twg sync.WaitGroup
			for g := 0; g < 4; g++ {
				twg.Add(1)
				go func(g int) {
					defer twg.Done()
					cl := hx.NewClient(nil)
					defer cl.CloseIdle()
					for k := 0; !stopTraffic.Load(); k++ {
						a := addr
						if k%2 == 1 {
							a = addr2
						}
						cl.Do(hx.Req{Method: "POST", Addr: a, Host: []string{"h1", "h2", "h3"}[k%3], URI: []string{"/a/x", "/a/b/x", "/b", "/"}[k%4], Body: []byte("x"), Timeout: 5 * time.Second})
					}
				}(g)
			}
			w.apply(r)
			stopTraffic.Store(true)
			twg.Wait()
			r.Add("e2e_reloads_under_traffic", 1)
		} else {
			w.apply(r)
		}
		for _, h := range []string{"h1", "h2", "h3"} {
			for _, u := range []string{"/a/x", "/a/b/x", "/b", "/c", "/", "/%61/x", "/a%2Fb/x", "/%62"} {
				q++
				uri := fmt.Sprintf("%s?q=%d", u, q)
				before := w.Farm.LogLen()
				srvNames, srvAddr2 := names, addr
				if names2 != nil && q%2 == 0 {
					srvNames, srvAddr2 = names2, addr2
					r.Add("e2e_requests_to_a_second_server_with_its_own_list", 1)
				}
				rq := hx.Req{Method: "POST", Addr: srvAddr2, Host: h, URI: uri, Body: []byte("x")}
				if q%3 == 0 {
					// what a front proxy (or anybody) may add names another configured host: routing goes by Host
					rq.Header = http.Header{"X-Forwarded-Host": {[]string{"h1", "h2", "h3"}[rnd.Intn(3)]}, "Forwarded": {"host=h2"}}
					r.Add("e2e_requests_with_forwarded_host_headers", 1)
				}
				res := w.Cl.Do(rq)
				fetches := w.Farm.LogSince(before)
				want := refRoute(locs, srvNames, h, uri)
				r.Eval(1)
				r.Add("e2e_requests", 1)
				cs := map[string]interface{}{"locations": locs, "server_locations": srvNames, "other_server_locations": names2, "host": h, "uri": uri}
				if len(want) == 0 {
					r.Add("e2e_no_match", 1)
					if len(fetches) != 0 || res.Status < 500 {
						r.Violate("e2e_no_match_not_5xx", nil, fmt.Sprintf("no location matches but status=%d upstream contacts=%d", res.Status, len(fetches)), res.Brief(), cs)
					}
					continue
				}
				// the winner's upstream may have no server alive: the request then fails (it is not handed to
				// a less specific location); where winners of the best class tie, either outcome of the tie
				allDead, someDead := true, false
				for k := range want {
					if dead[k] {
						someDead = true
					} else {
						allDead = false
					}
				}
				if someDead {
					r.Add("e2e_requests_whose_best_location_has_a_dead_upstream", 1)
					if len(fetches) == 0 && res.Status >= 500 {
						continue // served by nobody: fine when a dead winner was picked
					}
					if allDead {
						r.Violate("e2e_wrong_location", map[string]string{"case": "best_location_upstream_dead"}, fmt.Sprintf("every acceptable location %v has a dead upstream, yet status=%d upstream contacts=%d (origin %v)", want, res.Status, len(fetches), originsOf(fetches)), res.Brief(), cs)
						continue
					}
				}
				if len(fetches) != 1 || res.Status != 200 {
					r.Violate("e2e_not_forwarded_once", nil, fmt.Sprintf("status=%d upstream contacts=%d", res.Status, len(fetches)), res.Brief(), cs)
					continue
				}
				if !want[fetches[0].Server] {
					r.Violate("e2e_wrong_location", nil, fmt.Sprintf("request reached the origin of location n%d; acceptable %v", fetches[0].Server, want), res.Brief(), cs)
				}
				if len(want) >= 1 && i%7 == 0 {
					r.Distinct(fmt.Sprintf("e2e %d %s %s", i, h, u))
				}
			}
		}
	}
}

func originsOf(fs []*hx.Fetch) []int {
	var out []int
	for _, f := range fs {
		out = append(out, f.Server)
	}
	return out
}

func init() { register("C14", "exploration", c14) }
