package hx

import (
	"fmt"
	"net"
	"os"
	"strconv"
	"time"

	"github.com/vicanso/pike/cache"
	"github.com/vicanso/pike/compress"
	"github.com/vicanso/pike/config"
	"github.com/vicanso/pike/location"
	pikelog "github.com/vicanso/pike/log"
	"github.com/vicanso/pike/server"
	"github.com/vicanso/pike/upstream"
)

// QuietPikeLog sends pike's own log to a file (call before anything else runs)
func QuietPikeLog(path string) {
	if path == "" {
		path = os.DevNull
	}
	pikelog.SetOutputPath(path)
}

// Apply applies a configuration to the in-process pike exactly as main.update() does
func Apply(cfg *config.PikeConfig) error {
	compress.Reset(cfg.Compresses)
	cache.ResetDispatchers(cfg.Caches)
	upstream.Reset(cfg.Upstreams)
	location.Reset(cfg.Locations)
	server.Reset(cfg.Servers)
	return server.Start()
}

// ApplyStepwise is Apply with a callback after each step of main.update() (a reload takes time: requests in
// flight see the caches of the new configuration while the servers are still those of the old one)
func ApplyStepwise(cfg *config.PikeConfig, after func(step string)) error {
	compress.Reset(cfg.Compresses)
	after("compresses")
	cache.ResetDispatchers(cfg.Caches)
	after("caches")
	upstream.Reset(cfg.Upstreams)
	after("upstreams")
	location.Reset(cfg.Locations)
	after("locations")
	server.Reset(cfg.Servers)
	after("servers")
	return server.Start()
}

// SimpleCfg one server, one cache, one location without constraints, one upstream
type SimpleCfg struct {
	CacheName  string
	CacheSize  int
	HitForPass string
	Store      string
	Origins    []string // http://host:port
	Port       int
	MinLength  string
	Filter     string
	Compress   string
	Timeout    string
	Policy     string
}

// Build the PikeConfig of a SimpleCfg
func (s SimpleCfg) Build() *config.PikeConfig {
	if s.CacheName == "" {
		s.CacheName = "c"
	}
	if s.CacheSize == 0 {
		s.CacheSize = 100000
	}
	if s.HitForPass == "" {
		s.HitForPass = "5m"
	}
	servers := []config.UpstreamServerConfig{}
	for _, o := range s.Origins {
		servers = append(servers, config.UpstreamServerConfig{Addr: o})
	}
	return &config.PikeConfig{
		Caches:    []config.CacheConfig{{Name: s.CacheName, Size: s.CacheSize, HitForPass: s.HitForPass, Store: s.Store}},
		Upstreams: []config.UpstreamConfig{{Name: "u", Servers: servers, Policy: s.Policy}},
		Locations: []config.LocationConfig{{Name: "l", Upstream: "u", ProxyTimeout: s.Timeout}},
		Servers: []config.ServerConfig{{
			Addr: "127.0.0.1:" + strconv.Itoa(s.Port), Locations: []string{"l"}, Cache: s.CacheName,
			Compress: s.Compress, CompressMinLength: s.MinLength, CompressContentTypeFilter: s.Filter,
		}},
	}
}

// WaitListening waits until addr accepts connections
func WaitListening(addr string, d time.Duration) error {
	deadline := time.Now().Add(d)
	for {
		c, err := net.DialTimeout("tcp", addr, 200*time.Millisecond)
		if err == nil {
			c.Close()
			return nil
		}
		if time.Now().After(deadline) {
			return fmt.Errorf("not listening: %s: %v", addr, err)
		}
		time.Sleep(2 * time.Millisecond)
	}
}
