package main

import (
	"fmt"
	"time"

	"verifh/hx"
)

// dbg: calibration playground (not a registered check): what does pike answer for each scripted outcome
func dbg(r *hx.Run) {
	w := newSimpleWorld(r, hx.SimpleCfg{CacheName: "dbg", Timeout: "300ms"}, 1, true)
	defer w.Farm.Close()
	ps := &plans{}
	w.Farm.SetScript(ps.script)
	for _, k := range []string{"cacheable", "nocache", "5xx", "abort", "truncate", "hang"} {
		uri := "/dbg/" + k
		a := ans{Kind: k, T: 10}
		p := &plan{Seq: []ans{a}}
		if k == "hang" {
			p.Gate = func(*hx.Fetch) <-chan struct{} { return make(chan struct{}) }
		}
		ps.set(uri, p)
		for i := 0; i < 2; i++ {
			t0 := time.Now()
			res := w.Cl.Do(hx.Req{Addr: w.Addr, Host: "dbg", URI: uri, Timeout: 3 * time.Second})
			fmt.Printf("%-10s #%d status=%d label=%q err=%v body=%.60q contacts=%d dt=%v\n", k, i, res.Status, res.Label, res.Err, string(res.Raw), len(w.Farm.ByReqID(res.ReqID)), time.Since(t0).Round(time.Millisecond))
		}
	}
	r.Eval(1)
	r.Distinct("a")
	r.Distinct("b")
	r.Sample("dbg")
}

func init() { register("DBG", "other", dbg) }
