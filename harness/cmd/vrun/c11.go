package main

import (
	"container/list"
	"fmt"
	"math/rand"
	"os"
	"path/filepath"
	"strings"
	"sync/atomic"
	"time"

	"github.com/vicanso/pike/cache"
	"github.com/vicanso/pike/compress"
	"github.com/vicanso/pike/config"
	"github.com/vicanso/pike/location"
	"github.com/vicanso/pike/server"
	"github.com/vicanso/pike/upstream"
	"verifh/hx"
)

// C11: resident entries <= configured size; the victim is the shard's least recently used key.
// Oracle: pike's own eviction events are replayed against a reference recency list per shard;
// the resident count is read under every shard's own lock after each operation.

type refShard struct {
	ll *list.List
	m  map[string]*list.Element
}

func newRefShard() *refShard { return &refShard{ll: list.New(), m: map[string]*list.Element{}} }
func (s *refShard) touch(k string) {
	if e, ok := s.m[k]; ok {
		s.ll.MoveToFront(e)
		return
	}
	s.m[k] = s.ll.PushFront(k)
}
func (s *refShard) remove(k string) {
	if e, ok := s.m[k]; ok {
		s.ll.Remove(e)
		delete(s.m, k)
	}
}
func (s *refShard) oldest() string {
	if e := s.ll.Back(); e != nil {
		return e.Value.(string)
	}
	return ""
}

func c11Sizes(r *hx.Run) []int {
	sizes := []int{}
	top := r.Pick(64, 1100)
	for s := 1; s <= top; s++ {
		sizes = append(sizes, s)
	}
	sizes = append(sizes, 1000, 1023, 1024, 1025, 2000, 4096)
	if r.Thorough() {
		sizes = append(sizes, 51200)
	}
	return sizes
}

func c11Pattern(rnd *rand.Rand, pattern string, universe, s, i int) int {
	switch pattern {
	case "uniform":
		return rnd.Intn(universe)
	case "zipf":
		// heavy head
		v := int(rnd.ExpFloat64() * float64(universe) / 8)
		if v >= universe {
			v = universe - 1
		}
		return v
	case "scan":
		return i % universe
	default: // loop of S+1
		return i % (s + 1)
	}
}

func c11One(r *hx.Run, rnd *rand.Rand, s int, pattern string) {
	d := cache.NewDispatcher(cache.DispatcherOption{Name: "x", Size: s})
	st := d.VerifStats()
	zones := st.Zones
	shards := make([]*refShard, zones)
	for i := range shards {
		shards[i] = newRefShard()
	}
	inRemove := ""
	type evicted struct {
		shard int
		key   string
	}
	var pending []evicted
	d.VerifOnEvicted(func(shard int, key string) {
		pending = append(pending, evicted{shard, key})
	})
	universe := 4 * s
	if universe < 16 {
		universe = 16
	}
	ops := 50 * s
	if ops < 2000 {
		ops = 2000
	}
	if ops > 200000 {
		ops = 200000
	}
	checkEvery := 1
	if s > 64 {
		checkEvery = 64
	}
	maxResident := 0
	evictions := 0
	csig := fmt.Sprintf("S=%d %s", s, pattern)
	var trail []string
	for i := 0; i < ops; i++ {
		ki := c11Pattern(rnd, pattern, universe, s, i)
		key := fmt.Sprintf("GET h.example /k/%d", ki)
		kb := []byte(key)
		shard := int(cache.MemHash(kb) % uint64(zones))
		remove := rnd.Intn(23) == 0
		pending = pending[:0]
		if remove {
			inRemove = key
			d.RemoveHTTPCache(kb)
			inRemove = ""
			if len(trail) < 40 {
				trail = append(trail, "rm "+key)
			}
			for _, e := range pending {
				if e.key != key {
					r.Violate("remove_dropped_other_key", map[string]string{"size": fmt.Sprint(s)}, fmt.Sprintf("removing %q dropped %q", key, e.key), trail, csig)
				}
			}
			shards[shard].remove(key)
		} else {
			hc := d.GetHTTPCache(kb)
			if len(trail) < 40 {
				trail = append(trail, "get "+key)
			}
			if hc == nil {
				r.Violate("nil_entry", map[string]string{"size": fmt.Sprint(s)}, "GetHTTPCache returned nil", trail, csig)
			}
			shards[shard].touch(key)
			for _, e := range pending {
				evictions++
				r.Add("evictions_checked", 1)
				if e.shard != int(cache.MemHash([]byte(e.key))%uint64(zones)) {
					r.Violate("evicted_from_wrong_shard", map[string]string{"size": fmt.Sprint(s)}, fmt.Sprintf("key %q left shard %d", e.key, e.shard), trail, csig)
					continue
				}
				want := shards[e.shard].oldest()
				if want != e.key {
					r.Violate("victim_not_lru", map[string]string{"size": fmt.Sprint(s)},
						fmt.Sprintf("size %d: evicted %q but the least recently used key of shard %d is %q", s, e.key, e.shard, want), trail, csig)
				}
				shards[e.shard].remove(e.key)
			}
		}
		_ = inRemove
		if i%checkEvery == 0 || i == ops-1 {
			st := d.VerifStats()
			if st.Total > maxResident {
				maxResident = st.Total
			}
			ref := 0
			for _, sh := range shards {
				ref += sh.ll.Len()
			}
			if st.Total != ref {
				r.Violate("resident_count_mismatch", map[string]string{"size": fmt.Sprint(s)},
					fmt.Sprintf("size %d: pike holds %d entries, the replayed reference %d", s, st.Total, ref), trail, csig)
				break
			}
			if st.Total > s {
				class := "large"
				if s < 8 {
					class = "below_zone_count"
				}
				r.Violate("resident_exceeds_size", map[string]string{"size_class": class, "size": fmt.Sprint(s)},
					fmt.Sprintf("size %d: %d keys resident after %d operations (%s)", s, st.Total, i+1, pattern), map[string]interface{}{"per_shard": st.Resident, "lru_size": st.LRUSize, "zones": st.Zones, "first_ops": trail}, csig)
				break
			}
		}
	}
	r.Eval(1)
	r.Add("operations", int64(ops))
	r.Max("max_resident_permille_of_size", int64(maxResident*1000/s))
	if evictions > 0 {
		r.Distinct(csig)
	}
	r.Sample(map[string]interface{}{"size": s, "pattern": pattern, "ops": ops, "universe": universe, "zones": zones, "max_resident": maxResident, "evictions": evictions})
}

func c11(r *hx.Run) {
	r.Rule = "every size S in the list x access pattern {uniform,zipf,scan,loop of S+1}, >=50*S dispatcher operations (get-or-create, 1/23 removals) over 4*S keys; resident count read under each shard lock after every op (S<=64) or every 64 ops; each eviction event checked against a replayed per-shard recency list; caches configured twice with different sizes; end-to-end: fetches still in flight while their shard is filled by other keys, populations of 3S+20 uncacheable keys (at most S may still answer hitForPass when asked again) and of 3S+20 cacheable GET and HEAD keys side by side (at most S of them may still answer hit); a cache renamed away and configured again under its old name through reloads applied step by step with client requests between the cache step and the server step; Non-trivial = at least one eviction happened; distinct = (size,pattern)."
	r.Assume = []string{"residents are counted through the tag-guarded VerifStats hook (lru.Cache.Len under the shard lock)", "dispatcher-level: exported NewDispatcher/GetHTTPCache/RemoveHTTPCache are what the cache middleware calls"}
	rnd := rand.New(rand.NewSource(r.Seed))
	sizes := c11Sizes(r)
	for _, s := range sizes {
		for _, p := range []string{"uniform", "zipf", "scan", "loop"} {
			c11One(r, rnd, s, p)
			if r.TooMany() {
				break
			}
		}
	}
	r.Set("sizes", len(sizes))
	c11Reload(r, rnd)
	c11ReloadWindow(r, rnd)
	c11EndToEnd(r, rnd)
}

// c11ReloadWindow: a reload applies its steps one after the other (compress, caches, upstreams, locations,
// servers - main.update); client requests arrive between any two of them. Here a cache is renamed away
// and later configured again under its old name with a smaller size, with requests sent inside every
// reload between the cache step and the server step (the server still names the cache that has just been
// removed). Whatever those requests are answered, the cache configured at the end holds no more than the
// largest size ever configured for its name.
func c11ReloadWindow(r *hx.Run, rnd *rand.Rand) {
	port := hx.FreePorts(1)[0]
	addr := srvAddr(port)
	var origin string
	mk := func(cacheName string, size int) *config.PikeConfig {
		return &config.PikeConfig{
			Caches:    []config.CacheConfig{{Name: cacheName, Size: size, HitForPass: "5m"}},
			Upstreams: []config.UpstreamConfig{{Name: "u", Servers: []config.UpstreamServerConfig{{Addr: origin}}}},
			Locations: []config.LocationConfig{{Name: "l", Upstream: "u"}},
			Servers:   []config.ServerConfig{{Addr: addr, Locations: []string{"l"}, Cache: cacheName}},
		}
	}
	for round, sizes := range [][2]int{{40, 20}, {40, 20}, {9, 3}, {9, 3}, {300, 64}} {
		a, b := fmt.Sprintf("c11wa%d_%d", r.Seed, round), fmt.Sprintf("c11wb%d_%d", r.Seed, round)
		w := newWorldCfg(r, 1, true, func(o []string) *config.PikeConfig { origin = o[0]; return mk(a, sizes[0]) })
		w.Farm.SetScript(func(f *hx.Fetch) *hx.Reply {
			return &hx.Reply{Status: 200, Header: [][2]string{{"Cache-Control", "max-age=3600"}, {"Content-Type", "text/plain"}}, Body: hx.IdentBody(f, 200, "text")}
		})
		n := 0
		get := func() *hx.Result {
			n++
			return w.Cl.Do(hx.Req{Addr: addr, Host: "c11w.example", URI: fmt.Sprintf("/c11w/%d/%d", round, n), Timeout: 10 * time.Second})
		}
		// a reload with requests inside the window between the cache step and the server step
		// every second round: no request at all reaches the server while it names the other cache
		quiet := round%2 == 1
		reload := func(cfg *config.PikeConfig) {
			compress.Reset(cfg.Compresses)
			cache.ResetDispatchers(cfg.Caches)
			for i := 0; i < 5 && !quiet; i++ {
				res := get()
				r.Add("requests_inside_reload_window", 1)
				r.Add(fmt.Sprintf("requests_inside_reload_window_status_%d", res.Status), 1)
			}
			upstream.Reset(cfg.Upstreams)
			location.Reset(cfg.Locations)
			server.Reset(cfg.Servers)
			server.Start()
			w.Cfg = cfg
		}
		for i := 0; i < 10; i++ {
			get()
		}
		reload(mk(b, sizes[0])) // the cache is renamed: a is removed while the server still names it
		for i := 0; i < 10 && !quiet; i++ {
			get()
		}
		reload(mk(a, sizes[1])) // the old name again, smaller
		bound := sizes[0]
		if quiet {
			// the cache named a was removed and created anew with the smaller size; nothing can justify more
			bound = sizes[1]
		}
		max, ok := 0, true
		for i := 0; i < 6*bound+200; i++ {
			if res := get(); res.Err != nil || res.Status != 200 {
				r.Violate("request_failed_after_reload", nil, fmt.Sprintf("status %d err %v", res.Status, res.Err), res.Brief(), map[string]interface{}{"sizes": sizes})
				ok = false
				break
			}
			if d := cache.GetDispatcher(a); d != nil {
				if t := d.VerifStats().Total; t > max {
					max = t
				}
			}
		}
		// as the clients see it: of the keys just requested, asked again newest first, at most `bound`
		// can still be answered from memory (whichever dispatcher object the server really uses)
		if ok {
			last := n
			stillHit := 0
			for k := last; k > last-(3*bound+50) && k > 0; k-- {
				if res := w.Cl.Do(hx.Req{Addr: addr, Host: "c11w.example", URI: fmt.Sprintf("/c11w/%d/%d", round, k), Timeout: 10 * time.Second}); res.Label == "hit" {
					stillHit++
				}
			}
			if stillHit > max {
				max = stillHit
			}
		}
		r.Eval(1)
		r.Add("reload_window_rounds", 1)
		if ok && max > bound {
			r.Violate("resident_exceeds_size", map[string]string{"size_class": "after_reload_with_requests_in_the_window", "size": fmt.Sprint(sizes)}, fmt.Sprintf("cache configured with size %d, renamed away and configured again with size %d holds %d entries", sizes[0], sizes[1], max), nil, map[string]interface{}{"sizes": sizes})
		} else if ok {
			r.Distinct(fmt.Sprintf("reload window %v", sizes))
		}
		w.Farm.Close()
	}
}

// c11EndToEnd: small caches behind a real server: a dropped key is fetched (or reloaded) again
func c11EndToEnd(r *hx.Run, rnd *rand.Rand) {
	sizes := []int{1, 3, 8, 9, 20, 100}
	ports := hx.FreePorts(2 * len(sizes))
	type inst struct {
		size  int
		cache string
		addr  string
		store bool
		// unusable: a store is configured but cannot be opened - the cache is memory-only
		unusable bool
	}
	var insts []inst
	blocker := filepath.Join(r.Scratch, "c11-regular-file")
	os.WriteFile(blocker, []byte("x"), 0644)
	extraPorts := hx.FreePorts(2)
	w := newWorldCfg(r, 1, true, func(origins []string) *config.PikeConfig {
		cfg := &config.PikeConfig{
			Upstreams: []config.UpstreamConfig{{Name: "u", Servers: []config.UpstreamServerConfig{{Addr: origins[0]}}}},
			Locations: []config.LocationConfig{{Name: "l", Upstream: "u"}},
		}
		for i, s := range sizes {
			for j, st := range []bool{false, true} {
				name := fmt.Sprintf("c%d_%d", s, j)
				cc := config.CacheConfig{Name: name, Size: s, HitForPass: "5m"}
				if st {
					cc.Store = "mem://c11/" + name
					hx.NewMemStore(cc.Store)
				}
				addr := srvAddr(ports[2*i+j])
				cfg.Caches = append(cfg.Caches, cc)
				cfg.Servers = append(cfg.Servers, config.ServerConfig{Addr: addr, Locations: []string{"l"}, Cache: name})
				insts = append(insts, inst{s, name, addr, st, false})
			}
		}
		for k, s := range []int{3, 20} {
			name := fmt.Sprintf("cbad%d", s)
			addr := srvAddr(extraPorts[k])
			cfg.Caches = append(cfg.Caches, config.CacheConfig{Name: name, Size: s, HitForPass: "5m", Store: "badger://" + filepath.Join(blocker, name)})
			cfg.Servers = append(cfg.Servers, config.ServerConfig{Addr: addr, Locations: []string{"l"}, Cache: name})
			insts = append(insts, inst{s, name, addr, false, true})
		}
		return cfg
	})
	defer w.Farm.Close()
	var slowGate atomic.Value // chan struct{}: fetches of /slow/ keys wait for it
	w.Farm.SetScript(func(f *hx.Fetch) *hx.Reply {
		rep := &hx.Reply{Status: 200, Header: [][2]string{{"Cache-Control", "max-age=3600"}, {"Content-Type", "text/plain"}}, Body: hx.IdentBody(f, 200, "text")}
		if strings.Contains(f.URI, "/uncacheable/") {
			rep.Header[0] = [2]string{"Cache-Control", "no-store"}
		}
		if strings.Contains(f.URI, "/slow/") {
			if g, _ := slowGate.Load().(chan struct{}); g != nil {
				rep.Gate = g
			}
		}
		return rep
	})
	// (a) keys whose fetch is still in flight when their shard needs the space, (b) more uncacheable keys
	// than the cache may hold: whatever kind of entry, at most S keys are held in memory
	for _, in := range insts {
		d := cache.GetDispatcher(in.cache)
		if d == nil || r.TooMany() {
			continue
		}
		for round := 0; round < 3; round++ {
			g := make(chan struct{})
			slowGate.Store(g)
			slowURI := fmt.Sprintf("/e2e/%s/slow/%d", in.cache, round)
			done := make(chan *hx.Result, 1)
			go func() {
				done <- w.Cl.Do(hx.Req{Addr: in.addr, Host: "h.example", URI: slowURI, Timeout: 30 * time.Second})
			}()
			hx.WaitUntil(10*time.Second, func() bool { return w.Farm.InflightKey("GET h.example "+slowURI) >= 1 })
			for k := 0; k < 3*in.size+10; k++ {
				w.Cl.Get(in.addr, "h.example", fmt.Sprintf("/e2e/%s/during-slow/%d/%d", in.cache, round, k))
			}
			close(g)
			res := <-done
			r.Add("e2e_fetches_in_flight_while_their_shard_was_filled", 1)
			if res.Err != nil || res.Status != 200 {
				r.Violate("evicted_key_not_served", map[string]string{"size": fmt.Sprint(in.size)}, "a request whose entry was dropped while its fetch was in flight was not answered", res.Brief(), map[string]interface{}{"size": in.size})
			}
			if st := d.VerifStats(); st.Total > in.size {
				r.Violate("resident_exceeds_size", map[string]string{"size_class": "fetch_in_flight_while_shard_filled", "size": fmt.Sprint(in.size)},
					fmt.Sprintf("server with cache size %d holds %d entries after a slow fetch overlapped %d other keys", in.size, st.Total, 3*in.size+10), st, map[string]interface{}{"size": in.size, "round": round})
				break
			}
		}
		slowGate.Store((chan struct{})(nil))
		if in.store {
			continue // with a store a dropped marker is legitimately reloaded from its persisted record
		}
		n := 3*in.size + 20
		for k := 0; k < n; k++ {
			w.Cl.Get(in.addr, "h.example", fmt.Sprintf("/e2e/%s/uncacheable/%d", in.cache, k))
		}
		held := 0
		for k := n - 1; k >= 0; k-- {
			// a key still held answers hitForPass; a dropped one is simply fetched again. Each key is asked
			// once, so every hitForPass answer is a key that was resident when this pass began.
			if res := w.Cl.Get(in.addr, "h.example", fmt.Sprintf("/e2e/%s/uncacheable/%d", in.cache, k)); res.Label == "hitForPass" {
				held++
			}
		}
		if in.unusable {
			// nothing but the LRU can hold a key here: of 3S+20 cacheable keys at most S still answer hit
			nc := 3*in.size + 20
			for k := 0; k < nc; k++ {
				w.Cl.Get(in.addr, "h.example", fmt.Sprintf("/e2e/%s/cacheable-pop/%d", in.cache, k))
			}
			stillHit := 0
			for k := nc - 1; k >= 0; k-- {
				if res := w.Cl.Get(in.addr, "h.example", fmt.Sprintf("/e2e/%s/cacheable-pop/%d", in.cache, k)); res.Label == "hit" {
					stillHit++
				}
			}
			r.Add("e2e_cacheable_populations_on_caches_with_unusable_store", 1)
			if stillHit > in.size {
				r.Violate("resident_exceeds_size", map[string]string{"size_class": "unusable_store", "size": fmt.Sprint(in.size)},
					fmt.Sprintf("after %d distinct cacheable keys a cache of size %d whose store cannot be opened still answers %d of them as hit", nc, in.size, stillHit), nil, map[string]interface{}{"size": in.size})
			}
		}
		{
			// GET and HEAD keys side by side: the size bounds all keys of the cache together, whatever their method.
			// Asked once each from the newest to the oldest, every hit is a key that was resident when the pass began.
			nm := 3*in.size + 20
			meth := func(k int) string { return []string{"GET", "HEAD"}[k%2] }
			for k := 0; k < nm; k++ {
				w.Cl.Do(hx.Req{Method: meth(k), Addr: in.addr, Host: "h.example", URI: fmt.Sprintf("/e2e/%s/mixed-methods/%d", in.cache, k/2)})
			}
			stillHit, headHit := 0, 0
			for k := nm - 1; k >= 0; k-- {
				if res := w.Cl.Do(hx.Req{Method: meth(k), Addr: in.addr, Host: "h.example", URI: fmt.Sprintf("/e2e/%s/mixed-methods/%d", in.cache, k/2)}); res.Label == "hit" {
					stillHit++
					if k%2 == 1 {
						headHit++
					}
				}
			}
			r.Add("e2e_mixed_method_populations", 1)
			r.Add("e2e_mixed_method_head_keys_found_held", int64(headHit))
			r.Max("e2e_max_mixed_method_keys_found_held", int64(stillHit))
			if stillHit > in.size {
				r.Violate("resident_exceeds_size", map[string]string{"size_class": "get_and_head_keys", "size": fmt.Sprint(in.size)},
					fmt.Sprintf("after %d distinct GET and HEAD keys a cache of size %d still answers %d of them as hit", nm, in.size, stillHit), nil, map[string]interface{}{"size": in.size})
			}
		}
		r.Add("e2e_uncacheable_key_populations", 1)
		r.Max("e2e_max_uncacheable_keys_found_held", int64(held))
		if held > in.size {
			r.Violate("resident_exceeds_size", map[string]string{"size_class": "uncacheable_keys", "size": fmt.Sprint(in.size)},
				fmt.Sprintf("after %d distinct uncacheable keys a server with cache size %d still holds the hit-for-pass state of %d of them", n, in.size, held), nil, map[string]interface{}{"size": in.size})
		}
	}
	for _, in := range insts {
		d := cache.GetDispatcher(in.cache)
		if d == nil {
			r.Inconclusive("dispatcher missing: " + in.cache)
			continue
		}
		universe := 3*in.size + 5
		n := 40 * in.size
		if n < 300 {
			n = 300
		}
		if n > 2500 {
			n = 2500
		}
		fetchOf := map[string]map[int64]bool{}
		refetch, hits, reloads := 0, 0, 0
		for i := 0; i < n && !r.TooMany(); i++ {
			uri := fmt.Sprintf("/e2e/%s/%d", in.cache, rnd.Intn(universe))
			before := w.Farm.LogLen()
			res := w.Cl.Get(in.addr, "h.example", uri)
			after := w.Farm.LogSince(before)
			csig := map[string]interface{}{"size": in.size, "store": in.store, "uri": uri, "i": i}
			if res.Err != nil || res.Status != 200 || !res.HasIdent || !res.Ident.Intact || res.Ident.URI != uri {
				r.Violate("evicted_key_not_served", map[string]string{"size": fmt.Sprint(in.size)}, "request on a small cache not answered correctly", res.Brief(), csig)
				continue
			}
			if fetchOf[uri] == nil {
				fetchOf[uri] = map[int64]bool{}
			}
			switch res.Label {
			case "fetching":
				if len(after) != 1 || after[0].ID != res.FetchID {
					r.Violate("label_upstream_mismatch", map[string]string{"size": fmt.Sprint(in.size)}, "fetching without exactly one own upstream contact", res.Brief(), csig)
				}
				if len(fetchOf[uri]) > 0 {
					refetch++
				}
				fetchOf[uri][res.FetchID] = true
			case "hit":
				hits++
				if len(after) != 0 || !fetchOf[uri][res.FetchID] {
					r.Violate("hit_not_from_earlier_fetch", map[string]string{"size": fmt.Sprint(in.size)}, "hit that is not an earlier fetch of this key or contacted the upstream", res.Brief(), csig)
				}
			default:
				r.Violate("unexpected_label", map[string]string{"size": fmt.Sprint(in.size)}, "label "+res.Label, res.Brief(), csig)
			}
			st := d.VerifStats()
			if st.Total > in.size {
				class := "large"
				if in.size < 8 {
					class = "below_zone_count"
				}
				r.Violate("resident_exceeds_size", map[string]string{"size_class": class, "size": fmt.Sprint(in.size)},
					fmt.Sprintf("server with cache size %d holds %d entries", in.size, st.Total), st, csig)
				break
			}
		}
		_ = reloads
		r.Eval(1)
		r.Add("e2e_requests", int64(n))
		r.Add("e2e_refetched_after_drop", int64(refetch))
		r.Add("e2e_hits", int64(hits))
		if refetch > 0 || in.store {
			r.Distinct(fmt.Sprintf("e2e S=%d store=%v", in.size, in.store))
		}
	}
}

func init() { register("C11", "exploration", c11) }

// c11Reload: the same cache name is configured again with another size (a live reload). The size of a
// surviving cache is documented as restart-only, so the bound is the larger of the two sizes: whichever
// of them is in effect, the residents must not exceed it.
func c11Reload(r *hx.Run, rnd *rand.Rand) {
	pairs := [][2]int{{100, 5}, {2000, 100}, {2000, 7}, {64, 1}, {9, 3}, {5, 100}, {1, 64}, {1024, 1023}, {300, 8}}
	for pi, p := range pairs {
		name := fmt.Sprintf("c11reload%d_%d", r.Seed, pi)
		cache.ResetDispatchers([]config.CacheConfig{{Name: name, Size: p[0], HitForPass: "5m"}})
		cache.ResetDispatchers([]config.CacheConfig{{Name: name, Size: p[1], HitForPass: "5m"}})
		d := cache.GetDispatcher(name)
		if d == nil {
			r.Violate("cache_missing_after_reload", map[string]string{"sizes": fmt.Sprint(p)}, "the cache is gone after it was configured again with another size", nil, p)
			continue
		}
		bound := p[0]
		if p[1] > bound {
			bound = p[1]
		}
		n := 20*bound + 2000
		max := 0
		for i := 0; i < n; i++ {
			d.GetHTTPCache([]byte(fmt.Sprintf("GET h /reload/%d", rnd.Intn(6*bound+50))))
			if i%16 == 0 || i == n-1 {
				if t := d.VerifStats().Total; t > max {
					max = t
				}
			}
		}
		r.Eval(1)
		r.Add("reload_size_pairs", 1)
		if max > bound {
			r.Violate("resident_exceeds_size", map[string]string{"size_class": "after_reload", "size": fmt.Sprint(p)}, fmt.Sprintf("cache configured with size %d and then %d holds %d entries", p[0], p[1], max), nil, map[string]interface{}{"sizes": p})
			continue
		}
		r.Distinct(fmt.Sprintf("reload %v", p))
	}
	cache.ResetDispatchers(nil)
}
