// vrun: the runtime-monitoring driver. One sub-command per property.
package main

import (
	"fmt"
	"io"
	"log"
	"os"
	"path/filepath"

	"verifh/hx"
)

type checkFn func(r *hx.Run)

var checks = map[string]struct {
	level string
	fn    checkFn
}{}

func register(id, level string, fn checkFn) {
	checks[id] = struct {
		level string
		fn    checkFn
	}{level, fn}
}

func main() {
	if len(os.Args) < 2 {
		fmt.Println("usage: vrun <property|child> [flags]")
		os.Exit(3)
	}
	id := os.Args[1]
	if id == "child" {
		childMain(os.Args[2:])
		return
	}
	c, ok := checks[id]
	if !ok {
		fmt.Println("unknown property", id)
		os.Exit(3)
	}
	f := hx.ParseFlags(os.Args[2:])
	// net/http and httputil report aborted handlers through the std logger: keep stdout/stderr for verdicts
	log.SetOutput(io.Discard)
	hx.QuietPikeLog(filepath.Join(f.Scratch, "pike-inproc.log"))
	if f.Replay != "" {
		// re-execute the recorded case: case lists are a pure function of (seed, tier), so the run is
		// repeated with the recorded seed and tier (schedule-dependent cases: the same directed
		// schedules and stress are repeated); exit 1 iff a violation of the recorded kind shows again
		seed, tier, kind, err := hx.ReadReplay(f.Replay)
		if err != nil {
			fmt.Println("cannot read replay file:", err)
			os.Exit(3)
		}
		f.Seed, f.Tier = seed, tier
		fmt.Printf("replaying %s: property=%s seed=%d tier=%s kind=%s\n", f.Replay, id, seed, tier, kind)
		r := hx.NewRun(id, c.level, f)
		c.fn(r)
		code := r.Finish()
		if r.SawKind(kind) {
			fmt.Printf("REPRODUCED kind=%s\n", kind)
			os.Exit(1)
		}
		if code == 1 {
			fmt.Printf("NOT REPRODUCED kind=%s (other violations were reported)\n", kind)
			os.Exit(1)
		}
		fmt.Printf("NOT REPRODUCED kind=%s\n", kind)
		os.Exit(0)
	}
	r := hx.NewRun(id, c.level, f)
	c.fn(r)
	os.Exit(r.Finish())
}
