package main

import (
	"crypto/sha1"
	"encoding/hex"
	"fmt"
	"math/rand"
	"sort"
	"sync"
	"sync/atomic"
	"time"

	"github.com/anishathalye/porcupine"
	"verifh/hx"
)

// C01: single flight.

func interleavingSig(ev []hx.PointEvent) string {
	sort.Slice(ev, func(i, j int) bool { return ev[i].Seq < ev[j].Seq })
	idx := map[int64]int{}
	h := sha1.New()
	for _, e := range ev {
		i, ok := idx[e.GID]
		if !ok {
			i = len(idx)
			idx[e.GID] = i
		}
		fmt.Fprintf(h, "%d:%s;", i, e.Name)
	}
	return hex.EncodeToString(h.Sum(nil)[:8])
}

var c01JitterPoints = []string{"disp.got", "get.registered", "get.woken", "cache.fetched"}

// c01Bursts: K keys x N clients x E epochs, fetch held until the waiters are parked
func c01Bursts(r *hx.Run, w *W, ps *plans, rnd *rand.Rand, n int) {
	for bi := 0; bi < n && !r.TooMany(); bi++ {
		k := 1 + rnd.Intn(4)
		nClients := []int{2, 3, 4, 8, 16, 32, 64}[rnd.Intn(7)]
		epochs := 1 + rnd.Intn(3)
		t := []int64{1, 2, 5, 60}[rnd.Intn(4)]
		uris := make([]string, k)
		models := make([]*entryModel, k)
		for i := range uris {
			uris[i] = fmt.Sprintf("/c01/%d/%d/%d", r.Seed, bi, i)
			models[i] = &entryModel{TolerateStale: true}
		}
		a := ans{Kind: "cacheable", T: t}
		method := "GET"
		if bi%5 == 4 {
			method = "HEAD" // its own key; coalesced and cached like GET
			r.Add("head_bursts", 1)
		}
		for e := 0; e < epochs; e++ {
			early := rnd.Intn(4) == 0
			gate := make(chan struct{})
			for _, u := range uris {
				// (only the GET/HEAD fetch is held: an unsafe request on the same URI passes straight through)
				ps.set(u, &plan{Seq: []ans{a}, Gate: func(f *hx.Fetch) <-chan struct{} {
					if f.Method != "GET" && f.Method != "HEAD" {
						return nil
					}
					return gate
				}})
			}
			if early {
				close(gate)
			}
			baseReg := w.Pts.Count("get.registered")
			baseWoken := w.Pts.Count("get.woken")
			w.Pts.Record(true)
			now := w.Clock.Now()
			before := w.Farm.LogLen()
			overBefore := len(w.Farm.Overlaps())
			results := make([][]*hx.Result, k)
			var wg sync.WaitGroup
			for i, u := range uris {
				wg.Add(1)
				go func(i int, u string) {
					defer wg.Done()
					results[i] = burst(w, nClients, hx.Req{Method: method, Addr: w.Addr, Host: "c01.example", URI: u})
				}(i, u)
			}
			parked := true
			var late *hx.Result
			if !early {
				want := int64(k * (nClients - 1))
				parked = hx.WaitUntil(10*time.Second, func() bool { return w.Pts.Count("get.registered")-baseReg >= want })
				if parked && bi%6 == 2 {
					// while the fetch is in flight an unsafe request for the same URI passes through, then one
					// more request for the key arrives: it waits for the fetch like the others
					post := w.Cl.Do(hx.Req{Method: "POST", Addr: w.Addr, Host: "c01.example", URI: uris[0], Body: []byte("x")})
					if post.Err == nil {
						r.Add("unsafe_requests_on_the_key_during_its_fetch", 1)
					}
					regBefore := w.Pts.Count("get.registered")
					lateDone := make(chan struct{})
					go func() {
						defer close(lateDone)
						late = w.Cl.Do(hx.Req{Method: method, Addr: w.Addr, Host: "c01.example", URI: uris[0]})
					}()
					hx.WaitUntil(5*time.Second, func() bool {
						return w.Pts.Count("get.registered") > regBefore || w.Farm.InflightKey(method+" c01.example "+uris[0]) > 1
					})
					close(gate)
					<-lateDone
				} else {
					close(gate)
				}
			}
			wg.Wait()
			if late != nil {
				results[0] = append(results[0], late)
			}
			w.Pts.Record(false)
			ev := w.Pts.TakeEvents()
			sig := interleavingSig(ev)
			woken := w.Pts.Count("get.woken") - baseWoken
			r.Add("parked_waiters", woken)
			r.Add("bursts", 1)
			if !early && !parked {
				r.Add("bursts_not_fully_parked", 1)
			}
			fetches := w.Farm.LogSince(before)
			cs := map[string]interface{}{"burst": bi, "epoch": e, "keys": k, "clients": nClients, "T": t, "early_release": early}
			for i, u := range uris {
				var fs []*hx.Fetch
				for _, f := range fetches {
					if f.URI == u && f.Method == method {
						fs = append(fs, f)
					}
				}
				kind, text := models[i].burstCheck(now, results[i], fs, func(*hx.Fetch) ans { return a }, false)
				r.Eval(1)
				r.Add("requests", int64(len(results[i])))
				if kind != "" {
					r.Violate(kind, map[string]string{"mode": "burst"}, text, map[string]interface{}{"labels": labelsOf(results[i]), "contacts": len(fs)}, cs)
				}
			}
			for _, o := range w.Farm.Overlaps()[overBefore:] {
				r.Violate("concurrent_upstream_fetches", map[string]string{"mode": "burst"}, fmt.Sprintf("fetches %d and %d for %q in flight together", o.FetchA, o.FetchB, o.Key), o, cs)
			}
			if woken > 0 {
				r.Distinct("burst:" + sig)
			}
			if bi < 3 && e == 0 {
				r.Sample(map[string]interface{}{"case": cs, "labels_key0": labelsOf(results[0]), "interleaving_sig": sig, "point_events": len(ev)})
			}
			w.Clock.Advance(t + 1) // next epoch, at quiescence
		}
		for _, u := range uris {
			ps.del(u)
		}
		if bi%50 == 0 {
			w.Farm.Trim()
		}
	}
}

// c01Directed: waiter held between wake-up and resumption while the entry expires and a new
// request becomes the next epoch's fetcher
func c01Directed(r *hx.Run, w *W, ps *plans, i int, t int64) {
	uri := fmt.Sprintf("/c01d/%d/%d", r.Seed, i)
	key := "GET c01.example " + uri
	a := ans{Kind: "cacheable", T: t}
	gates := map[int]chan struct{}{}
	var gmu sync.Mutex
	gateOf := func(n int) chan struct{} {
		gmu.Lock()
		defer gmu.Unlock()
		if gates[n] == nil {
			gates[n] = make(chan struct{})
		}
		return gates[n]
	}
	releaseAll := func() {
		for n := 1; n <= 8; n++ {
			g := gateOf(n)
			select {
			case <-g:
			default:
				close(g)
			}
		}
	}
	defer releaseAll()
	ps.set(uri, &plan{Seq: []ans{a}, Gate: func(f *hx.Fetch) <-chan struct{} { return gateOf(f.Nth) }})
	defer ps.del(uri)
	rq := hx.Req{Addr: w.Addr, Host: "c01.example", URI: uri}
	cs := map[string]interface{}{"uri": uri, "T": t, "schedule": "F fetches (held at origin); W registers; F completes; W held at get.woken; clock += T+1; N becomes next fetcher (held at origin); W released"}
	overBefore := len(w.Farm.Overlaps())
	async := func() chan *hx.Result {
		ch := make(chan *hx.Result, 1)
		go func() { ch <- w.Cl.Do(rq) }()
		return ch
	}
	inconclusive := func(why string) { r.InconclusiveCase("C01 directed " + why) }
	// F
	chF := async()
	if !hx.WaitUntil(10*time.Second, func() bool { return w.Farm.InflightKey(key) == 1 }) {
		inconclusive("F not at origin")
		return
	}
	// W
	baseReg := w.Pts.Count("get.registered")
	hold := w.Pts.HoldNext("get.woken")
	chW := async()
	if !hx.WaitUntil(10*time.Second, func() bool { return w.Pts.Count("get.registered") > baseReg }) {
		w.Pts.Disarm(hold)
		inconclusive("W did not register")
		return
	}
	close(gateOf(1))
	resF := <-chF
	if !hold.WaitArrived(10 * time.Second) {
		w.Pts.Disarm(hold)
		inconclusive("W not held at get.woken")
		return
	}
	w.Clock.Advance(t + 1)
	// N
	chN := async()
	if !hx.WaitUntil(10*time.Second, func() bool { return w.Farm.InflightKey(key) == 1 }) {
		hold.Release()
		inconclusive("N not at origin")
		return
	}
	regBefore := w.Pts.Count("get.registered")
	hold.Release()
	// W now either waits behind N (registers again), is answered from F's fetch, or goes upstream itself
	var resW *hx.Result
	outcome := ""
	deadline := time.Now().Add(10 * time.Second)
	for outcome == "" {
		select {
		case resW = <-chW:
			outcome = "returned"
		default:
		}
		if outcome != "" {
			break
		}
		if w.Farm.InflightKey(key) >= 2 {
			outcome = "second_fetch_in_flight"
		} else if w.Pts.Count("get.registered") > regBefore {
			outcome = "waits_behind_new_fetch"
		} else if time.Now().After(deadline) {
			outcome = "watchdog"
		} else {
			time.Sleep(100 * time.Microsecond)
		}
	}
	maxIn := w.Farm.MaxInflight(key)
	releaseAll()
	if resW == nil {
		resW = <-chW
	}
	resN := <-chN
	r.Eval(1)
	r.Add("directed_schedules", 1)
	r.Add("directed_outcome_"+outcome, 1)
	r.Distinct(fmt.Sprintf("directed T=%d %s", t, outcome))
	wit := map[string]interface{}{"F": resF.Brief(), "W": resW.Brief(), "N": resN.Brief(), "outcome": outcome, "max_inflight": maxIn}
	if outcome == "watchdog" {
		inconclusive("W neither returned nor waited nor fetched")
		return
	}
	over := w.Farm.Overlaps()[overBefore:]
	if len(over) > 0 || outcome == "second_fetch_in_flight" {
		r.Violate("concurrent_upstream_fetches", map[string]string{"mode": "directed_woken_expiry"},
			fmt.Sprintf("waiter resumed after the entry expired went upstream itself while the next epoch's fetch was in flight (max in flight %d, W label=%s, N label=%s)", maxIn, resW.Label, resN.Label), wit, cs)
		return
	}
	// W must have been answered from a fetch (F's or N's), N is the fetcher of its epoch
	if resN.Label != "fetching" || (resW.Label != "hit") || (resW.FetchID != resF.FetchID && resW.FetchID != resN.FetchID) {
		r.Violate("directed_waiter_not_served_from_fetch", map[string]string{"mode": "directed_woken_expiry"}, "waiter neither answered from the fetch it waited for nor from the next one", wit, cs)
	}
	w.Clock.Advance(t + 1)
}

// c01DirectedSlowFetch: the fetch is in flight while the cache clock jumps far ahead; requests arriving
// after the jump must still wait behind it
func c01DirectedSlowFetch(r *hx.Run, w *W, ps *plans, i int, jump int64) {
	uri := fmt.Sprintf("/c01s/%d/%d", r.Seed, i)
	key := "GET c01.example " + uri
	gate := make(chan struct{})
	var once sync.Once
	release := func() { once.Do(func() { close(gate) }) }
	defer release()
	ps.set(uri, &plan{Seq: []ans{{Kind: "cacheable", T: 30}}, Gate: func(*hx.Fetch) <-chan struct{} { return gate }})
	defer ps.del(uri)
	rq := hx.Req{Addr: w.Addr, Host: "c01.example", URI: uri}
	overBefore := len(w.Farm.Overlaps())
	chans := []chan *hx.Result{}
	start := func() {
		ch := make(chan *hx.Result, 1)
		chans = append(chans, ch)
		go func() { ch <- w.Cl.Do(rq) }()
	}
	start()
	if !hx.WaitUntil(10*time.Second, func() bool { return w.Farm.InflightKey(key) == 1 }) {
		r.InconclusiveCase("C01 slow fetch: fetcher not at origin")
		return
	}
	base := w.Pts.Count("get.registered")
	start()
	hx.WaitUntil(10*time.Second, func() bool { return w.Pts.Count("get.registered") > base })
	for k := 0; k < 3; k++ {
		w.Clock.Advance(jump)
		reg := w.Pts.Count("get.registered")
		start()
		hx.WaitUntil(5*time.Second, func() bool { return w.Pts.Count("get.registered") > reg || w.Farm.InflightKey(key) >= 2 })
	}
	maxIn := w.Farm.MaxInflight(key)
	release()
	var res []*hx.Result
	for _, ch := range chans {
		res = append(res, <-ch)
	}
	r.Eval(1)
	r.Add("directed_slow_fetch_schedules", 1)
	r.Distinct(fmt.Sprintf("directed_slow_fetch jump=%d", jump))
	cs := map[string]interface{}{"uri": uri, "clock_jump_seconds": jump, "schedule": "fetch held at origin; a waiter parked; three times: clock += jump, another request"}
	if over := w.Farm.Overlaps()[overBefore:]; len(over) > 0 || maxIn > 1 {
		r.Violate("concurrent_upstream_fetches", map[string]string{"mode": "directed_slow_fetch"}, fmt.Sprintf("a request arriving while the (slow) fetch was in flight went upstream itself: max in flight %d, labels %v", maxIn, labelsOf(res)), briefs(res), cs)
		return
	}
	nf := 0
	for _, x := range res {
		if x.Label == "fetching" {
			nf++
		}
	}
	if nf != 1 {
		r.Violate("two_fetchers", map[string]string{"mode": "directed_slow_fetch"}, fmt.Sprintf("%d requests labelled fetching: %v", nf, labelsOf(res)), briefs(res), cs)
	}
	w.Clock.Advance(40)
}

// c01DirectedLongFetch: the fetch takes longer than any patience a waiter might have (11 s of real time, no
// proxy timeout configured): the waiters still wait, nobody else goes upstream, and when the fetch ends
// while requests wait on another key each waiter gets the response of its own key
func c01DirectedLongFetch(r *hx.Run, w *W, ps *plans, i int) {
	uris := []string{fmt.Sprintf("/c01long/%d/%d/a", r.Seed, i), fmt.Sprintf("/c01long/%d/%d/b", r.Seed, i)}
	gates := []chan struct{}{make(chan struct{}), make(chan struct{})}
	var once [2]sync.Once
	release := func(k int) { once[k].Do(func() { close(gates[k]) }) }
	defer release(0)
	defer release(1)
	for k, u := range uris {
		g := gates[k]
		ps.set(u, &plan{Seq: []ans{{Kind: "cacheable", T: 300}}, Gate: func(*hx.Fetch) <-chan struct{} { return g }})
		defer ps.del(u)
	}
	overBefore := len(w.Farm.Overlaps())
	chans := [2][]chan *hx.Result{}
	start := func(k int) {
		ch := make(chan *hx.Result, 1)
		chans[k] = append(chans[k], ch)
		go func() {
			ch <- w.Cl.Do(hx.Req{Addr: w.Addr, Host: "c01.example", URI: uris[k], Timeout: 60 * time.Second})
		}()
	}
	burst := func(k int) bool {
		key := "GET c01.example " + uris[k]
		start(k)
		if !hx.WaitUntil(10*time.Second, func() bool { return w.Farm.InflightKey(key) == 1 }) {
			return false
		}
		for n := 0; n < 2; n++ {
			reg := w.Pts.Count("get.registered")
			start(k)
			hx.WaitUntil(5*time.Second, func() bool { return w.Pts.Count("get.registered") > reg })
		}
		return true
	}
	if !burst(0) {
		r.InconclusiveCase("C01 long fetch: fetcher not at origin")
		return
	}
	time.Sleep(11 * time.Second)
	maxA := w.Farm.MaxInflight("GET c01.example " + uris[0])
	okB := burst(1)
	release(0)
	var res [2][]*hx.Result
	for _, ch := range chans[0] {
		res[0] = append(res[0], <-ch)
	}
	release(1)
	for _, ch := range chans[1] {
		res[1] = append(res[1], <-ch)
	}
	r.Eval(1)
	r.Add("directed_long_fetch_schedules", 1)
	r.Distinct("directed_long_fetch")
	cs := map[string]interface{}{"uris": uris, "schedule": "fetch of a held at the origin for 11 s with two parked waiters; fetch of b held with two parked waiters; a released, then b"}
	if over := w.Farm.Overlaps()[overBefore:]; len(over) > 0 || maxA > 1 {
		r.Violate("concurrent_upstream_fetches", map[string]string{"mode": "directed_long_fetch"}, fmt.Sprintf("a request waiting for a fetch that took 11 s went upstream itself: max in flight %d, labels %v", maxA, labelsOf(res[0])), briefs(res[0]), cs)
		return
	}
	for k := range uris {
		nf := 0
		for _, x := range res[k] {
			if x.Label == "fetching" {
				nf++
			}
			if x.Err != nil || x.Status != 200 || !x.HasIdent || x.Ident.URI != uris[k] {
				r.Violate("waiter_got_wrong_or_no_response", map[string]string{"mode": "directed_long_fetch"}, fmt.Sprintf("request for %s answered with status %d, err %v, body of %q", uris[k], x.Status, x.Err, x.Ident.URI), briefs(res[k]), cs)
				return
			}
		}
		if nf != 1 && (k == 0 || okB) {
			r.Violate("two_fetchers", map[string]string{"mode": "directed_long_fetch"}, fmt.Sprintf("%d requests labelled fetching for %s: %v", nf, uris[k], labelsOf(res[k])), briefs(res[k]), cs)
			return
		}
	}
}

// c01DirectedLookup: a request is held between the dispatcher lookup and the entry lookup while the
// entry expires and another request becomes the fetcher
func c01DirectedLookup(r *hx.Run, w *W, ps *plans, i int, t int64) {
	uri := fmt.Sprintf("/c01e/%d/%d", r.Seed, i)
	key := "GET c01.example " + uri
	gate := make(chan struct{})
	var once sync.Once
	release := func() { once.Do(func() { close(gate) }) }
	defer release()
	ps.set(uri, &plan{Seq: []ans{{Kind: "cacheable", T: t}}, Gate: func(f *hx.Fetch) <-chan struct{} {
		if f.Nth == 1 {
			return nil
		}
		return gate
	}})
	defer ps.del(uri)
	rq := hx.Req{Addr: w.Addr, Host: "c01.example", URI: uri}
	first := w.Cl.Do(rq)
	if first.Label != "fetching" {
		r.InconclusiveCase("C01 directed lookup: first request not a fetch")
		return
	}
	overBefore := len(w.Farm.Overlaps())
	hold := w.Pts.HoldNext("disp.got")
	ch1 := make(chan *hx.Result, 1)
	go func() { ch1 <- w.Cl.Do(rq) }()
	if !hold.WaitArrived(10 * time.Second) {
		w.Pts.Disarm(hold)
		r.InconclusiveCase("C01 directed lookup: request not held at disp.got")
		<-ch1
		return
	}
	w.Clock.Advance(t + 1)
	ch2 := make(chan *hx.Result, 1)
	go func() { ch2 <- w.Cl.Do(rq) }()
	if !hx.WaitUntil(10*time.Second, func() bool { return w.Farm.InflightKey(key) == 1 }) {
		hold.Release()
		r.InconclusiveCase("C01 directed lookup: second request not at origin")
		return
	}
	regBefore := w.Pts.Count("get.registered")
	hold.Release()
	// the held request must now wait behind the fetch in flight (or be answered); it must not fetch
	hx.WaitUntil(10*time.Second, func() bool {
		return w.Pts.Count("get.registered") > regBefore || w.Farm.InflightKey(key) >= 2 || len(ch1) > 0
	})
	maxIn := w.Farm.MaxInflight(key)
	release()
	r1, r2 := <-ch1, <-ch2
	r.Eval(1)
	r.Add("directed_lookup_schedules", 1)
	r.Distinct(fmt.Sprintf("directed_lookup T=%d", t))
	cs := map[string]interface{}{"uri": uri, "T": t, "schedule": "R1 held at disp.got (entry fresh); clock += T+1; R2 becomes fetcher (held at origin); R1 released"}
	if over := w.Farm.Overlaps()[overBefore:]; len(over) > 0 {
		r.Violate("concurrent_upstream_fetches", map[string]string{"mode": "directed_lookup_expiry"}, fmt.Sprintf("two fetches in flight (max %d): R1 label=%s R2 label=%s", maxIn, r1.Label, r2.Label), map[string]interface{}{"R1": r1.Brief(), "R2": r2.Brief()}, cs)
		return
	}
	if r2.Label != "fetching" || r1.Label != "hit" || r1.FetchID != r2.FetchID {
		r.Violate("directed_waiter_not_served_from_fetch", map[string]string{"mode": "directed_lookup_expiry"}, "the request that looked the entry up before expiry was not answered from the refetch", map[string]interface{}{"R1": r1.Brief(), "R2": r2.Brief()}, cs)
	}
	w.Clock.Advance(t + 1)
}

// c01Porcupine: staggered clients and a concurrent clock advancer, history checked per key
func c01Porcupine(r *hx.Run, w *W, ps *plans, rnd *rand.Rand, n int) {
	for hi := 0; hi < n && !r.TooMany(); hi++ {
		t := []int64{1, 2, 3}[rnd.Intn(3)]
		uris := []string{fmt.Sprintf("/c01p/%d/%d/a", r.Seed, hi), fmt.Sprintf("/c01p/%d/%d/b", r.Seed, hi)}
		a := ans{Kind: "cacheable", T: t}
		for _, u := range uris {
			ps.set(u, &plan{Seq: []ans{a}})
		}
		start := w.Clock.Now()
		var mu sync.Mutex
		ops := map[string][]porcupine.Operation{}
		var adv []porcupine.Operation
		var wg sync.WaitGroup
		clients := 8
		per := 4 + rnd.Intn(5)
		seeds := make([]int64, clients+1)
		for i := range seeds {
			seeds[i] = rnd.Int63()
		}
		for c := 0; c < clients; c++ {
			wg.Add(1)
			go func(c int) {
				defer wg.Done()
				lr := rand.New(rand.NewSource(seeds[c]))
				for i := 0; i < per; i++ {
					u := uris[lr.Intn(2)]
					res := w.Cl.Do(hx.Req{Addr: w.Addr, Host: "c01.example", URI: u, Proc: c})
					mu.Lock()
					ops[u] = append(ops[u], reqOp(c, res, 0, t))
					mu.Unlock()
					if lr.Intn(3) == 0 {
						time.Sleep(time.Duration(lr.Intn(300)) * time.Microsecond)
					}
				}
			}(c)
		}
		wg.Add(1)
		go func() {
			defer wg.Done()
			lr := rand.New(rand.NewSource(seeds[clients]))
			for i := 0; i < 6; i++ {
				time.Sleep(time.Duration(100+lr.Intn(600)) * time.Microsecond)
				d := int64(1 + lr.Intn(int(t)+1))
				call := hx.Seq()
				w.Clock.Advance(d)
				ret := hx.Seq()
				mu.Lock()
				adv = append(adv, porcupine.Operation{ClientId: clients, Input: pIn{Op: "advance", D: d}, Call: call, Output: pOut{}, Return: ret})
				mu.Unlock()
			}
		}()
		wg.Wait()
		for _, u := range uris {
			h := append(append([]porcupine.Operation{}, ops[u]...), adv...)
			res := porcupineCheck(start, h)
			r.Eval(1)
			r.Add("porcupine_partitions", 1)
			r.Add("porcupine_ops", int64(len(h)))
			r.Add("porcupine_"+res, 1)
			epochs := 0
			for _, o := range ops[u] {
				if o.Output.(pOut).Label == "fetching" {
					epochs++
				}
			}
			if epochs >= 2 {
				r.Distinct(fmt.Sprintf("porcupine %d %s", hi, u))
			}
			if res == "illegal" {
				r.Violate("history_not_linearizable", map[string]string{"mode": "porcupine"}, "per-key history is not linearizable against the cache entry model", describeOps(h), map[string]interface{}{"uri": u, "T": t})
			}
			ps.del(u)
		}
		w.Clock.Advance(t + 1)
	}
}

func c01(r *hx.Run) {
	r.Rule = "bursts: 1-4 keys x {2..64} identical concurrent GET (every fifth burst HEAD) requests x 1-3 epochs, in some an unsafe request on the same URI passes through during the fetch and a late request follows, the fetch held at the origin until the hook counter shows all other requests parked (1/4 released early), jitter at 4 hook points, judged by the origin in-flight monitor and per-epoch exactly-once accounting; directed: waiter held between wake-up and resumption while the entry expires and a new fetcher starts; a fetch that takes 11 s of real time with parked waiters, ending while requests wait on another key; failed fetches: the one contact of a burst hangs past the proxy timeout, resets the connection or sends half a body - no client request may reach the upstream twice; porcupine: 8 staggered clients + a concurrent clock advancer, per-key linearizability. Non-trivial = burst with >=1 parked waiter; distinct = interleaving signature (hash of the (goroutine role, hook point) sequence) / directed outcome / porcupine partition with >=2 epochs."
	r.Assume = []string{"virtual clock through the cache.nowUnix hook", "no eviction: cache size 100000 >> keys (asserted by the eviction hook)", "-race build"}
	rnd := rand.New(rand.NewSource(r.Seed))
	w := newSimpleWorld(r, hx.SimpleCfg{CacheName: "c01"}, 1, true)
	defer w.Farm.Close()
	w.Pts = hx.InstallPoints(r.Seed)
	w.Pts.SetJitter(c01JitterPoints, 400)
	ps := &plans{}
	w.Farm.SetScript(ps.script)
	evictions := watchEvictions("c01")
	c01Bursts(r, w, ps, rnd, r.Pick(120, 12000))
	w.Pts.SetJitter(nil, 0)
	nd := r.Pick(40, 4000)
	for i := 0; i < nd && !r.TooMany(); i++ {
		c01Directed(r, w, ps, i, []int64{1, 2, 5, 60}[i%4])
	}
	for i := 0; i < r.Pick(20, 2000) && !r.TooMany(); i++ {
		c01DirectedLookup(r, w, ps, i, []int64{1, 3, 60}[i%3])
	}
	for i := 0; i < r.Pick(12, 1500) && !r.TooMany(); i++ {
		c01DirectedSlowFetch(r, w, ps, i, []int64{5, 11, 61, 301, 3601}[i%5])
	}
	for i := 0; i < r.Pick(1, 4) && !r.TooMany(); i++ {
		c01DirectedLongFetch(r, w, ps, i)
	}
	w.Pts.SetJitter(c01JitterPoints, 200)
	c01Porcupine(r, w, ps, rnd, r.Pick(60, 6000))
	if n := evictions.Load(); n != 0 {
		r.Inconclusive(fmt.Sprintf("%d evictions happened; the entry model assumes none", n))
	}
	r.Set("points_hit", w.Pts.Counts())
	w.Pts.SetJitter(nil, 0)
	c01FailedFetch(r, rnd, r.Pick(9, 600))
	checkRaceLog(r)
}

// c01FailedFetch: the one fetch of a burst fails after the upstream has received it (it never answers
// and the location's proxy timeout fires; it resets the connection; it sends half a body). Whatever the
// clients are told, every request is either the one in flight or waits for it, so no single client
// request ever reaches the upstream more than once, and while the failing contact is still open at the
// origin no second contact of the same request appears next to it.
func c01FailedFetch(r *hx.Run, rnd *rand.Rand, n int) {
	w := newSimpleWorld(r, hx.SimpleCfg{CacheName: "c01f", HitForPass: "2s", Timeout: "300ms"}, 1, true)
	defer w.Farm.Close()
	for i := 0; i < n && !r.TooMany(); i++ {
		kind := []string{"hang", "abort", "truncate"}[i%3]
		uri := fmt.Sprintf("/c01f/%d/%d", r.Seed, i)
		var contacts atomic.Int64
		release := make(chan struct{})
		w.Farm.SetScript(func(f *hx.Fetch) *hx.Reply {
			first := contacts.Add(1) == 1
			rep := replyOf(f, ans{Kind: "cacheable", T: 60})
			if !first {
				return rep
			}
			switch kind {
			case "hang":
				rep.Gate = release // not answered before the proxy timeout has long fired
			case "abort":
				rep = replyOf(f, ans{Kind: "abort"})
			case "truncate":
				rep = replyOf(f, ans{Kind: "truncate"})
			}
			return rep
		})
		nClients := 2 + rnd.Intn(6)
		res := burst(w, nClients, hx.Req{Addr: w.Addr, Host: "c01.example", URI: uri, Timeout: 15 * time.Second})
		close(release)
		r.Eval(1)
		r.Add("failed_fetch_bursts_"+kind, 1)
		cs := map[string]interface{}{"uri": uri, "first_contact": kind, "clients": nClients}
		bad := false
		for _, x := range res {
			fs := w.Farm.ByReqID(x.ReqID)
			if len(fs) > 1 {
				r.Violate("request_contacted_upstream_more_than_once", map[string]string{"first_contact": kind}, fmt.Sprintf("one client request reached the upstream %d times (the first contact failed after the upstream had received it)", len(fs)), map[string]interface{}{"results": briefs(res)}, cs)
				bad = true
				break
			}
		}
		if !bad {
			r.Distinct(fmt.Sprintf("failed_fetch %s n=%d", kind, nClients))
		}
		w.Clock.Advance(100)
	}
}

func init() { register("C01", "exploration", c01) }
