package main

import (
	"context"
	"fmt"
	"math/rand"
	"net/http"
	"runtime"
	"strings"
	"sync"
	"sync/atomic"
	"time"

	"github.com/vicanso/pike/cache"
	"verifh/hx"
)

// C02: every coalesced request completes: no lost wake-up, no stuck key.

var c02Outcomes = []string{"cacheable", "nocache", "5xx", "abort", "nilresp", "hang", "panic_hook", "truncate", "client_abort", "corrupt_gzip", "stall"}

type c02Epoch struct {
	Outcome string `json:"outcome"`
	Waiters int    `json:"waiters"`
	Variant string `json:"variant"` // parked | held_registered | held_registered_purge | late | waiter_client_abort
	// FetcherHdr: the request that becomes the fetcher carries conditional / Range headers (they are
	// withheld from the upstream on a cold fetch; the fetch must complete like any other)
	FetcherHdr string `json:"fetcher_header,omitempty"`
}

var c02FetcherHdrs = map[string][2]string{
	"range":             {"Range", "bytes=0-9"},
	"if_range":          {"If-Range", `"nope"`},
	"if_none_match":     {"If-None-Match", `"nope"`},
	"if_modified_since": {"If-Modified-Since", "Mon, 02 Jan 2006 15:04:05 GMT"},
}

func pikeGoroutines() []string {
	buf := make([]byte, 4<<20)
	n := runtime.Stack(buf, true)
	var out []string
	for _, g := range strings.Split(string(buf[:n]), "\n\n") {
		if strings.Contains(g, "vicanso/pike/cache.") || strings.Contains(g, "vicanso/pike/server.") {
			lines := strings.Split(g, "\n")
			if len(lines) > 9 {
				lines = lines[:9]
			}
			out = append(out, strings.Join(lines, " | "))
		}
	}
	if len(out) > 12 {
		out = out[:12]
	}
	return out
}

func c02History(r *hx.Run, w *W, rnd *rand.Rand, hi int, epochs []c02Epoch) {
	// clients made for single requests keep their idle connections open: close them when the history is over
	// (a thorough run makes tens of thousands of them - file descriptors of this process)
	var tmpClients []*hx.Client
	defer func() {
		for _, c := range tmpClients {
			c.CloseIdle()
		}
	}()
	const T, P = 2, 2
	uri := fmt.Sprintf("/c02/%d/%d", r.Seed, hi)
	key := "GET c02.example " + uri
	var first atomic.Bool    // the next upstream contact is the epoch's fetch
	var outcome atomic.Value // string
	var gate atomic.Value    // chan struct{}
	w.Farm.SetScript(func(f *hx.Fetch) *hx.Reply {
		if f.URI != uri {
			return nil
		}
		if !first.CompareAndSwap(true, false) {
			// a released waiter / follow-up going upstream itself: plain uncacheable 200
			return replyOf(f, ans{Kind: "nocache"})
		}
		oc := outcome.Load().(string)
		g := gate.Load().(chan struct{})
		var rep *hx.Reply
		switch oc {
		case "cacheable", "panic_hook", "client_abort":
			rep = replyOf(f, ans{Kind: "cacheable", T: T})
		case "nilresp":
			// cacheable headers, but a body pike cannot decode: a positive lifetime and no response object
			rep = &hx.Reply{Status: 200, Header: [][2]string{{"Cache-Control", "max-age=2"}, {"Content-Type", "text/plain"}}, Encoding: "lz4", Body: []byte("\xff\xff\xff\xffnot an lz4 block\x00\x01")}
		case "corrupt_gzip":
			// cacheable, compressible, announced as gzip - but the bytes are no gzip stream: storing it cannot
			// build the other variants
			junk := hx.PRNGBytes(f.ID, 2500, "rand")
			rep = &hx.Reply{Status: 200, Header: [][2]string{{"Cache-Control", "max-age=2"}, {"Content-Type", "text/plain"}}, Encoding: "gzip", Body: junk}
		case "hang":
			rep = replyOf(f, ans{Kind: "cacheable", T: T})
			rep.Gate = make(chan struct{}) // never answered: the proxy timeout ends the fetch
			return rep
		default:
			rep = replyOf(f, ans{Kind: oc})
		}
		rep.Gate = g
		return rep
	})
	rq := hx.Req{Addr: w.Addr, Host: "c02.example", URI: uri, Timeout: 20 * time.Second}
	rqGzip := rq
	rqGzip.Header = map[string][]string{"Accept-Encoding": {"gzip"}}
	var trace []interface{}
	for ei, ep := range epochs {
		cs := map[string]interface{}{"uri": uri, "epoch": ei, "spec": ep, "history": epochs}
		g := make(chan struct{})
		gate.Store(g)
		outcome.Store(ep.Outcome)
		first.Store(true)
		if ep.Outcome == "panic_hook" {
			var once sync.Once
			w.Pts.SetCustom(map[string]func(){"proxy.afterUpstream": func() {
				fire := false
				once.Do(func() { fire = true })
				if fire {
					panic(http.ErrAbortHandler)
				}
			}})
		}
		before := w.Farm.LogLen()
		// wall-clock marks of the episode's steps (diagnostics in the witness only, never part of a verdict)
		t0 := time.Now()
		wall := map[string]int64{}
		mark := func(step string) { wall[step] = time.Since(t0).Milliseconds() }
		cs["wall_ms_since_fetcher_started"] = wall
		// scheduleLost: a step of the schedule could not be established within its watchdog; the episode is then only
		// inspected for stuck requests, its labels are not judged
		scheduleLost := false
		// the fetcher
		ctxF, cancelF := context.WithCancel(context.Background())
		_ = ctxF
		var resF *hx.Result
		doneF := make(chan struct{})
		fetcherClient := hx.NewClient(w.Clock.Now)
		tmpClients = append(tmpClients, fetcherClient)
		go func() {
			defer close(doneF)
			frq := rq
			if ep.Outcome == "corrupt_gzip" {
				frq = rqGzip // otherwise Go's transport would ask for gzip itself and fail to decode
			}
			if kv, ok := c02FetcherHdrs[ep.FetcherHdr]; ok {
				h := http.Header{}
				for k, v := range frq.Header {
					h[k] = v
				}
				h.Set(kv[0], kv[1])
				if kv[0] == "If-Range" {
					h.Set("Range", "bytes=0-9")
				}
				frq.Header = h
			}
			resF = fetcherClient.Do(frq)
		}()
		if !hx.WaitUntil(15*time.Second, func() bool { return w.Farm.InflightKey(key) >= 1 }) {
			r.InconclusiveCase("C02: fetcher did not reach the origin")
			close(g)
			<-doneF
			cancelF()
			return
		}
		baseReg := w.Pts.Count("get.registered")
		// taken as soon as the fetch is at the origin: the location's 200 ms proxy timeout may end the fetch
		// at any moment from here on (on a loaded machine even before the waiters have arrived)
		enterBefore := w.Pts.Count("cacheable.enter") + w.Pts.Count("hfp.enter")
		savedBefore := completionsDone(w.Pts)
		var hold *hx.Hold
		if strings.HasPrefix(ep.Variant, "held_registered") && ep.Waiters > 0 {
			hold = w.Pts.HoldNext("get.registered")
		}
		results := make([]*hx.Result, ep.Waiters)
		var wg sync.WaitGroup
		startWaiters := func() {
			for i := 0; i < ep.Waiters; i++ {
				wg.Add(1)
				go func(i int) {
					defer wg.Done()
					q := rq
					q.Proc = i + 1
					results[i] = w.Cl.Do(q)
				}(i)
			}
		}
		if ep.Variant != "late" {
			startWaiters()
			if !hx.WaitUntil(15*time.Second, func() bool { return w.Pts.Count("get.registered")-baseReg >= int64(ep.Waiters) }) {
				r.InconclusiveCase("C02: waiters did not register")
				scheduleLost = true
			}
			mark("waiters_registered")
		}
		var aborted *hx.Result
		if ep.Variant == "waiter_client_abort" {
			// one more coalesced client, which gives up (drops its connection) before the fetch ends
			quitter := hx.NewClient(w.Clock.Now)
			tmpClients = append(tmpClients, quitter)
			qdone := make(chan struct{})
			regBefore := w.Pts.Count("get.registered")
			go func() { defer close(qdone); aborted = quitter.Do(rq) }()
			hx.WaitUntil(15*time.Second, func() bool { return w.Pts.Count("get.registered") > regBefore })
			quitter.Abort()
			<-qdone
			time.Sleep(2 * time.Millisecond) // let the server notice the closed connection
			r.Add("waiter_client_aborts", 1)
		}
		_ = aborted
		if ep.Variant == "clock_jump_during_fetch" {
			// the fetch takes "two minutes" of cache time; one more request arrives after the jump
			w.Clock.Advance(120)
			regBefore := w.Pts.Count("get.registered")
			results = append(results, nil)
			li := len(results) - 1
			wg.Add(1)
			go func() {
				defer wg.Done()
				q := rq
				q.Proc = 99
				results[li] = w.Cl.Do(q)
			}()
			hx.WaitUntil(5*time.Second, func() bool {
				return w.Pts.Count("get.registered") > regBefore || w.Farm.InflightKey(key) >= 2
			})
			r.Add("late_arrivals_after_clock_jump_during_fetch", 1)
		}
		if ep.Variant == "evicted_during_fetch" {
			// the fetching entry is pushed out of its (2-entry) shard while waiters hold on to it
			for f := 0; f < 40; f++ {
				w.Cl.Get(w.Addr, "c02.example", fmt.Sprintf("/c02fill/%d", f))
			}
			if st, _ := entryState("c02", key); !st.Exists {
				r.Add("fetching_entries_evicted_with_waiters", 1)
			}
		}
		if ep.Variant == "held_registered_purge" {
			if !purgeDirect(r, "c02", key, map[string]string{"outcome": ep.Outcome, "variant": ep.Variant}) {
				close(g)
				cancelF()
				return
			}
			r.Add("purges_racing_completion", 1)
		}
		if ep.Outcome == "client_abort" {
			// the fetcher's client drops its connection while the origin still holds the fetch
			fetcherClient.HC.Transport.(*http.Transport).CloseIdleConnections()
			cancelClient(fetcherClient)
			r.Add("fetcher_client_aborts", 1)
		}
		mark("gate_opened")
		close(g)
		if hold != nil {
			// the completion is now blocked sending to the waiter that registered but does not receive yet
			hx.WaitUntil(15*time.Second, func() bool {
				return w.Pts.Count("cacheable.enter")+w.Pts.Count("hfp.enter") > enterBefore
			})
			select {
			case <-hold.Arrived:
				r.Add("completions_raced_with_registered_waiter", 1)
			default:
			}
			time.Sleep(time.Duration(rnd.Intn(300)) * time.Microsecond)
			hold.Release()
			w.Pts.Disarm(hold)
			mark("held_waiter_released")
		}
		if ep.Variant == "late" {
			startWaiters()
		}
		// bounded progress: everything returns once the fetch has ended
		allDone := make(chan struct{})
		go func() { wg.Wait(); <-doneF; close(allDone) }()
		completed := true
		select {
		case <-allDone:
		case <-time.After(20 * time.Second):
			completed = false
		}
		mark("all_requests_returned")
		// server-side quiescence: the fetch's completion (Cacheable / HitForPass) has run to its end
		if completed && !hx.WaitUntil(20*time.Second, func() bool { return completionsDone(w.Pts) > savedBefore }) {
			completed = false
		}
		w.Pts.SetCustom(nil)
		cancelF()
		st, lockFree := entryState("c02", key)
		if !lockFree {
			hangSeen(r)
			r.Violate("request_never_completed", map[string]string{"outcome": ep.Outcome, "variant": ep.Variant}, "the entry lock is held at quiescence: the fetch's completion is blocked (deadlock between completion and a request)",
				map[string]interface{}{"origin_inflight": w.Farm.InflightKey(key), "blocked_goroutines": pikeGoroutines(), "trace": trace}, cs)
			return
		}
		tr := map[string]interface{}{"epoch": ei, "spec": ep, "entry_after": fmt.Sprintf("%+v", st)}
		if !completed {
			// the watchdog only triggers the inspection; the verdict is the hooked state
			inflight := w.Farm.InflightKey(key)
			stuckWhy := ""
			if st.Exists && st.Waiters > 0 && (st.Status != cache.StatusFetching || inflight == 0) {
				stuckWhy = "waiters registered on the entry although no fetch is in progress (lost wake-up)"
			} else if st.Exists && st.Status == cache.StatusFetching && inflight == 0 {
				stuckWhy = "entry left in the fetching state with no fetch alive (stuck key)"
			} else {
				stuckWhy = "requests blocked at quiescence"
			}
			hangSeen(r)
			r.Violate("request_never_completed", map[string]string{"outcome": ep.Outcome, "variant": ep.Variant}, stuckWhy,
				map[string]interface{}{"entry": fmt.Sprintf("%+v", st), "origin_inflight": inflight, "blocked_goroutines": pikeGoroutines(), "trace": trace}, cs)
			return
		}
		if scheduleLost {
			// nothing is stuck (inspected above); what the clients were told in an episode whose schedule was not
			// established (their own 20 s patience included) says nothing about the property
			r.Add("episodes_not_judged_after_a_lost_schedule", 1)
			return
		}
		r.Eval(1)
		r.Add("fetches_ended", 1)
		r.Add("waiters_released", int64(ep.Waiters))
		fetches := w.Farm.LogSince(before)
		// judge the waiters: answered from the fetch, or went upstream themselves
		fromFetch, wentUp := 0, 0
		var fid int64
		if len(fetches) > 0 {
			fid = fetches[0].ID
		}
		for _, res := range results {
			own := 0
			for _, f := range fetches {
				if f.ReqID == res.ReqID {
					own++
				}
			}
			switch {
			case ep.Outcome == "corrupt_gzip" && res.Err == nil:
				// whatever pike makes of an undecodable upstream body (an error status for clients that need it
				// decoded) - the waiter was released and answered
				fromFetch++
			case res.Err == nil && res.Label == "hit" && res.FetchID == fid && own == 0 && (ep.Outcome == "cacheable" || ep.Outcome == "client_abort" || ep.Outcome == "panic_hook"):
				fromFetch++
			case res.Err == nil && res.Status == 200 && own == 1 && (res.Label == "hitForPass" || res.Label == "fetching"):
				wentUp++
			case res.Err == nil && res.Label == "hit" && own == 0 && ep.Variant == "late":
				fromFetch++
			default:
				r.Violate("waiter_outcome", map[string]string{"outcome": ep.Outcome, "variant": ep.Variant},
					fmt.Sprintf("released waiter neither received the fetched response nor fetched itself (label=%q status=%d own contacts=%d err=%v)", res.Label, res.Status, own, res.Err),
					map[string]interface{}{"waiter": res.Brief(), "fetcher": resF.Brief(), "trace": trace}, cs)
				return
			}
		}
		r.Add("waiters_served_from_fetch", int64(fromFetch))
		r.Add("waiters_went_upstream", int64(wentUp))
		tr["from_fetch"], tr["went_upstream"], tr["fetcher_status"], tr["fetcher_label"] = fromFetch, wentUp, resF.Status, resF.Label
		if ep.Outcome == "cacheable" && ep.Variant != "held_registered_purge" && ep.Variant != "evicted_during_fetch" && wentUp > 0 && ep.Variant != "late" {
			// allowed by this property ("or proceeds to the upstream itself"); single flight is C01's concern
			r.Add("waiters_that_went_upstream_after_a_cacheable_fetch_(info)", int64(wentUp))
		}
		// quiescent invariant on hooked state
		if st.Exists && (st.Status == cache.StatusFetching || st.Waiters != 0) {
			r.Violate("entry_not_settled", map[string]string{"outcome": ep.Outcome, "variant": ep.Variant}, fmt.Sprintf("at quiescence the entry is %+v", st), tr, cs)
			return
		}
		r.Add("quiescent_state_inspections", 1)
		// the next request is served normally
		probe := w.Cl.Do(rq)
		okLabel := probe.Label == "hit" || probe.Label == "hitForPass" || probe.Label == "fetching"
		if ep.Outcome == "corrupt_gzip" {
			if probe.Err != nil {
				r.Violate("followup_not_served", map[string]string{"outcome": ep.Outcome, "variant": ep.Variant}, "the request after the fetch of an undecodable body did not return", map[string]interface{}{"probe": probe.Brief(), "trace": trace}, cs)
				return
			}
		} else if probe.Err != nil || probe.Status != 200 || !okLabel || !probe.HasIdent || probe.Ident.URI != uri {
			r.Violate("followup_not_served", map[string]string{"outcome": ep.Outcome, "variant": ep.Variant}, "the request after the fetch ended was not served normally", map[string]interface{}{"probe": probe.Brief(), "trace": trace}, cs)
			return
		}
		wantLabel := "hitForPass"
		if ep.Outcome == "cacheable" && ep.Variant != "held_registered_purge" {
			wantLabel = "hit"
		}
		if ep.Variant != "evicted_during_fetch" && ep.Variant != "held_registered_purge" && ep.Outcome != "client_abort" && ep.Outcome != "panic_hook" && ep.Outcome != "corrupt_gzip" && probe.Label != wantLabel {
			// served normally is all this property asks of the follow-up; which label it carries is C01/C07
			r.Add("followups_with_another_label_than_the_model_(info)", 1)
		}
		tr["followup"] = probe.Label
		trace = append(trace, tr)
		r.Add("outcome_"+ep.Outcome, 1)
		r.Add("variant_"+ep.Variant, 1)
		w.Clock.Advance(T + P + 1)
	}
	sig := ""
	for _, e := range epochs {
		sig += e.Outcome + "/" + e.Variant + fmt.Sprint(e.Waiters) + e.FetcherHdr + ","
	}
	r.Distinct(sig)
	if hi < 5 {
		r.Sample(map[string]interface{}{"history": epochs, "trace": trace})
	}
}

// cancelClient makes an in-flight request of this client fail at once (its connection is closed)
func cancelClient(c *hx.Client) {
	if tr, ok := c.HC.Transport.(*http.Transport); ok {
		// closing the transport's connections: the request in flight sees a closed connection
		tr.CloseIdleConnections()
		if ca, ok := interface{}(tr).(interface{ CancelRequest(*http.Request) }); ok {
			_ = ca
		}
	}
	c.Abort()
}

// c02ReloadDuringFetch: a configuration reload that renames the server's cache (so the dispatcher the
// fetch started with is gone from the registry) arrives while a fetch with parked waiters is in flight;
// the fetch then ends with the given outcome. Every coalesced request must still complete.
func c02ReloadDuringFetch(r *hx.Run, w *W, idx int, oc string) {
	uri := fmt.Sprintf("/c02reload/%d/%d", r.Seed, idx)
	key := "GET c02.example " + uri
	g := make(chan struct{})
	var first atomic.Bool
	first.Store(true)
	w.Farm.SetScript(func(f *hx.Fetch) *hx.Reply {
		if f.URI != uri {
			return nil
		}
		if !first.CompareAndSwap(true, false) {
			return replyOf(f, ans{Kind: "nocache"})
		}
		rep := replyOf(f, ans{Kind: oc, T: 2})
		rep.Gate = g
		return rep
	})
	const waiters = 3
	cs := map[string]interface{}{"uri": uri, "outcome": oc, "waiters": waiters, "step": "cache renamed by a reload while the fetch is in flight"}
	rq := hx.Req{Addr: w.Addr, Host: "c02.example", URI: uri, Timeout: 20 * time.Second}
	results := make([]*hx.Result, waiters+1)
	var wg sync.WaitGroup
	fc := hx.NewClient(w.Clock.Now)
	defer fc.CloseIdle()
	wg.Add(1)
	go func() { defer wg.Done(); results[0] = fc.Do(rq) }()
	if !hx.WaitUntil(15*time.Second, func() bool { return w.Farm.InflightKey(key) >= 1 }) {
		r.InconclusiveCase("C02 reload: fetcher did not reach the origin")
		close(g)
		wg.Wait()
		return
	}
	baseReg := w.Pts.Count("get.registered")
	for i := 1; i <= waiters; i++ {
		wg.Add(1)
		go func(i int) {
			defer wg.Done()
			q := rq
			q.Proc = i
			results[i] = w.Cl.Do(q)
		}(i)
	}
	registered := hx.WaitUntil(15*time.Second, func() bool { return w.Pts.Count("get.registered")-baseReg >= waiters })
	// the reload: same server, its cache under another name
	oldName := w.Cfg.Caches[0].Name
	newName := oldName + "r"
	if strings.HasSuffix(oldName, "r") {
		newName = strings.TrimSuffix(oldName, "r")
	}
	w.Cfg.Caches[0].Name = newName
	for i := range w.Cfg.Servers {
		w.Cfg.Servers[i].Cache = newName
	}
	done := make(chan struct{})
	go func() { wg.Wait(); close(done) }()
	var open sync.Once
	err := hx.ApplyStepwise(w.Cfg, func(step string) {
		if step == "caches" && idx%2 == 1 {
			// the fetch ends inside the reload: the caches are those of the new configuration already, the
			// server still names the old one
			open.Do(func() { close(g) })
			select {
			case <-done:
			case <-time.After(3 * time.Second):
			}
			r.Add("fetches_ending_between_cache_reset_and_server_reset", 1)
		}
	})
	open.Do(func() { close(g) })
	if err != nil {
		r.InconclusiveCase("C02 reload: cannot apply the configuration: " + err.Error())
		wg.Wait()
		return
	}
	select {
	case <-done:
	case <-time.After(30 * time.Second):
		var briefs []interface{}
		for _, res := range results {
			if res != nil {
				briefs = append(briefs, res.Brief())
			} else {
				briefs = append(briefs, "no answer")
			}
		}
		r.Violate("request_never_completed", map[string]string{"outcome": oc, "variant": "cache_renamed_during_fetch"},
			"30 s after the fetch ended a coalesced request has not returned (the server's cache was renamed by a reload during the fetch)",
			map[string]interface{}{"results": briefs, "goroutines": pikeGoroutines()}, cs)
		return
	}
	if !registered {
		r.InconclusiveCase("C02 reload: waiters did not register")
		return
	}
	for i, res := range results {
		if res == nil || res.Err != nil {
			r.Violate("waiter_outcome", map[string]string{"outcome": oc, "variant": "cache_renamed_during_fetch"},
				fmt.Sprintf("request %d ended without an HTTP answer after the reload", i), map[string]interface{}{"result": fmt.Sprint(res)}, cs)
			return
		}
	}
	r.Add("reloads_renaming_the_cache_during_a_fetch", 1)
	r.Add("outcome_"+oc+"_with_reload", 1)
}

// c02ExpiryWhileReleasing: the completion of a cacheable fetch is busy handing the result to a waiter that
// registered but does not receive yet; meanwhile the response expires and new requests of the key arrive (the
// next epoch); then the held waiter proceeds. Every request of both epochs must complete.
func c02ExpiryWhileReleasing(r *hx.Run, w *W, idx int) {
	uri := fmt.Sprintf("/c02epoch/%d/%d", r.Seed, idx)
	key := "GET c02.example " + uri
	g := make(chan struct{})
	var first atomic.Bool
	first.Store(true)
	w.Farm.SetScript(func(f *hx.Fetch) *hx.Reply {
		if f.URI != uri {
			return nil
		}
		rep := replyOf(f, ans{Kind: "cacheable", T: 2})
		if first.CompareAndSwap(true, false) {
			rep.Gate = g
		}
		return rep
	})
	nOld, nNew := 2+idx%2, 2+idx%3
	cs := map[string]interface{}{"uri": uri, "waiters_of_the_first_epoch": nOld, "arrivals_after_expiry": nNew, "step": "expiry and new arrivals while the completion is sending to a registered waiter"}
	rq := hx.Req{Addr: w.Addr, Host: "c02.example", URI: uri, Timeout: 20 * time.Second}
	results := make([]*hx.Result, 1+nOld+nNew)
	var wg sync.WaitGroup
	do := func(i int) {
		wg.Add(1)
		go func() {
			defer wg.Done()
			c := hx.NewClient(w.Clock.Now)
			defer c.CloseIdle()
			q := rq
			q.Proc = i
			results[i] = c.Do(q)
		}()
	}
	do(0)
	if !hx.WaitUntil(15*time.Second, func() bool { return w.Farm.InflightKey(key) >= 1 }) {
		r.InconclusiveCase("C02 epoch: fetcher did not reach the origin")
		close(g)
		wg.Wait()
		return
	}
	baseReg := w.Pts.Count("get.registered")
	enterBefore := w.Pts.Count("cacheable.enter")
	hold := w.Pts.HoldNext("get.registered")
	for i := 1; i <= nOld; i++ {
		do(i)
	}
	registered := hx.WaitUntil(15*time.Second, func() bool { return w.Pts.Count("get.registered")-baseReg >= int64(nOld) })
	close(g)
	entered := hx.WaitUntil(15*time.Second, func() bool { return w.Pts.Count("cacheable.enter") > enterBefore })
	held := false
	select {
	case <-hold.Arrived:
		held = true
	case <-time.After(5 * time.Second):
	}
	// the response expires; the next epoch's requests arrive while the old completion is still sending
	w.Clock.Advance(4)
	regNew := w.Pts.Count("get.registered")
	for i := 0; i < nNew; i++ {
		do(1 + nOld + i)
	}
	hx.WaitUntil(150*time.Millisecond, func() bool { return w.Pts.Count("get.registered")-regNew >= int64(nNew-1) })
	hold.Release()
	w.Pts.Disarm(hold)
	done := make(chan struct{})
	go func() { wg.Wait(); close(done) }()
	select {
	case <-done:
	case <-time.After(30 * time.Second):
		var briefs []interface{}
		for _, res := range results {
			if res != nil {
				briefs = append(briefs, res.Brief())
			} else {
				briefs = append(briefs, "no answer")
			}
		}
		hangSeen(r)
		r.Violate("request_never_completed", map[string]string{"outcome": "cacheable", "variant": "expiry_and_new_epoch_while_releasing"},
			"30 s after the held waiter was let go a request of the key has not returned",
			map[string]interface{}{"results": briefs, "goroutines": pikeGoroutines()}, cs)
		return
	}
	if !registered || !entered || !held {
		r.InconclusiveCase("C02 epoch: the schedule could not be set up")
		return
	}
	for i, res := range results {
		if res == nil || res.Err != nil {
			r.Violate("waiter_outcome", map[string]string{"outcome": "cacheable", "variant": "expiry_and_new_epoch_while_releasing"},
				fmt.Sprintf("request %d ended without an HTTP answer", i), map[string]interface{}{"result": fmt.Sprint(res)}, cs)
			return
		}
	}
	r.Add("completions_overlapped_by_expiry_and_a_new_epoch", 1)
}

func c02(r *hx.Run) {
	r.MaxViol = 3 // violations here usually cost a watchdog period each
	r.Level = "fault_enumeration"
	r.Rule = "quick: every fetch outcome {cacheable, uncacheable, 5xx, upstream protocol error, cacheable headers with an undecodable body (no response object), hang > ProxyTimeout (504), panic at the proxy hook, truncated upstream body (net/http abort panic), fetcher's client drops its connection, cacheable response announced as gzip whose bytes are no gzip stream, upstream that sends the header and half of the body and then nothing more (the proxy timeout still bounds the fetch)} x every waiter position {parked, one waiter registered but not yet receiving, the same + purge of the key, arriving after completion} x repeats (every second repeat the fetcher's own request carries Range / If-Range / If-None-Match / If-Modified-Since); thorough adds random outcome sequences of length 2-6 on one key; directed episodes in which the response expires and 2-4 new requests of the key arrive while the completion is still handing the result to a waiter that registered but does not receive yet; six directed episodes in which a reload renames the server's cache while a fetch (uncacheable, 5xx, cacheable) with three parked waiters is in flight; in every second one the fetch ends inside the reload, after the caches were reset and before the servers were. Verdict at quiescence on hooked entry state (status, registered waiters), on every request having returned, and on a follow-up request. Non-trivial = history in which >=1 waiter was parked; distinct = (outcome,variant,waiters) sequence."
	r.Assume = []string{"virtual clock, hook points (tag-guarded)", "ProxyTimeout 200ms so that a hanging upstream ends the fetch", "-race build"}
	rnd := rand.New(rand.NewSource(r.Seed))
	w := newSimpleWorld(r, hx.SimpleCfg{CacheName: "c02", CacheSize: 16, HitForPass: "2s", Timeout: "200ms"}, 1, true)
	defer w.Farm.Close()
	w.Pts = hx.InstallPoints(r.Seed)
	variants := []string{"parked", "held_registered", "held_registered_purge", "late", "waiter_client_abort", "evicted_during_fetch", "clock_jump_during_fetch"}
	hi := 0
	reps := r.Pick(2, 30)
	for rep := 0; rep < reps; rep++ {
		for _, oc := range c02Outcomes {
			for _, v := range variants {
				if r.TooMany() {
					break
				}
				fh := ""
				if rep%2 == 1 {
					fh = []string{"range", "if_none_match", "if_modified_since", "if_range"}[(hi+rep/2)%4]
					r.Add("fetchers_with_conditional_or_range_headers", 1)
				}
				c02History(r, w, rnd, hi, []c02Epoch{{oc, 1 + rnd.Intn(6), v, fh}})
				hi++
			}
		}
	}
	nseq := r.Pick(25, 6000)
	for i := 0; i < nseq && !r.TooMany(); i++ {
		n := 2 + rnd.Intn(5)
		var eps []c02Epoch
		for j := 0; j < n; j++ {
			oc := c02Outcomes[rnd.Intn(len(c02Outcomes))]
			if oc == "hang" && rnd.Intn(3) != 0 {
				oc = "abort" // keep the wall clock of 200 ms timeouts bounded
			}
			fh := ""
			if rnd.Intn(3) == 0 {
				fh = []string{"range", "if_none_match", "if_modified_since", "if_range"}[rnd.Intn(4)]
			}
			eps = append(eps, c02Epoch{oc, rnd.Intn(9), variants[rnd.Intn(len(variants))], fh})
		}
		c02History(r, w, rnd, hi, eps)
		hi++
		if i%50 == 0 {
			w.Farm.Trim()
		}
	}
	// directed: expiry and the next epoch's arrivals while the completion is still releasing the first epoch's waiters
	for i := 0; i < r.Pick(6, 200) && !r.TooMany(); i++ {
		c02ExpiryWhileReleasing(r, w, i)
	}
	// directed: the server's cache is renamed by a reload while a fetch with parked waiters is in flight
	for i, oc := range []string{"nocache", "5xx", "cacheable", "nocache", "5xx", "cacheable"} {
		if r.TooMany() {
			break
		}
		c02ReloadDuringFetch(r, w, i, oc)
	}
	r.Set("points_hit", w.Pts.Counts())
	checkRaceLog(r)
}

func init() { register("C02", "fault_enumeration", c02) }
