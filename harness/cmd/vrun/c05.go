package main

import (
	"bytes"
	"fmt"
	"math/rand"
	"net/http"
	"runtime/debug"
	"sort"
	"strconv"
	"strings"
	"sync"

	"github.com/vicanso/pike/config"
	"verifh/hx"
)

// C05: bodies, status and headers are delivered unaltered for every encoding mix.

type c05Srv struct {
	name   string
	addr   string
	min    int
	filter string
	store  bool
}

type c05Case struct {
	URI       string      `json:"uri"`
	Server    string      `json:"server"`
	Method    string      `json:"method"`
	Status    int         `json:"status"`
	BodyLen   int         `json:"body_len"`
	BodyKind  string      `json:"body_kind"`
	Encoding  string      `json:"upstream_encoding"`
	Level     int         `json:"upstream_level"`
	Type      string      `json:"content_type"`
	Cacheable bool        `json:"cacheable"`
	Extra     [][2]string `json:"extra_headers"`
}

var c05Accepts = []string{"", "gzip", "br", "gzip, br", "br, gzip, deflate", "deflate", "identity", "zstd", "compress", "x-gzip", "pack200-gzip", "gzip, identity", "deflate, br"}

var c05HopOrVolatile = map[string]bool{"Content-Encoding": true, "Content-Length": true, "Connection": true, "Date": true, "Age": true, "X-Status": true,
	"Keep-Alive": true, "Proxy-Authenticate": true, "Proxy-Authorization": true, "Te": true, "Trailer": true, "Transfer-Encoding": true, "Upgrade": true}

func c05World(r *hx.Run) (*W, []c05Srv, map[string]*hx.MemStore) {
	specs := []c05Srv{
		{name: "d", min: 1024}, {name: "m1", min: 1}, {name: "m100", min: 100}, {name: "m64k", min: 64 * 1000},
		{name: "flt", min: 1024, filter: "text|custom"}, {name: "st", min: 1024, store: true},
	}
	mins := map[string]string{"d": "", "m1": "1", "m100": "100", "m64k": "64kb", "flt": "1kb", "st": ""}
	comps := map[string]string{"d": "", "m1": "lv1", "m100": "lv9", "m64k": "lvbad", "flt": "", "st": "lv1"}
	ports := hx.FreePorts(len(specs))
	stores := map[string]*hx.MemStore{}
	w := newWorldCfg(r, 1, true, func(origins []string) *config.PikeConfig {
		cfg := &config.PikeConfig{
			Compresses: []config.CompressConfig{
				{Name: "lv1", Levels: map[string]uint{"gzip": 1, "br": 1}},
				{Name: "lv9", Levels: map[string]uint{"gzip": 9, "br": 11}},
				{Name: "lvbad", Levels: map[string]uint{"gzip": 99, "br": 99}},
			},
			Upstreams: []config.UpstreamConfig{{Name: "u", Servers: []config.UpstreamServerConfig{{Addr: origins[0]}}}},
			Locations: []config.LocationConfig{{Name: "l", Upstream: "u"}, {Name: "lpt", Upstream: "u", Prefixes: []string{"/c05pt/"}, ProxyTimeout: "5s"}},
		}
		for i := range specs {
			sp := &specs[i]
			cc := config.CacheConfig{Name: "c05" + sp.name, Size: 100000, HitForPass: "5m"}
			if sp.store {
				cc.Size = 8
				cc.Store = fmt.Sprintf("mem://c05/%d", r.Seed)
				stores[sp.name] = hx.NewMemStore(cc.Store)
			}
			sp.addr = srvAddr(ports[i])
			cfg.Caches = append(cfg.Caches, cc)
			cfg.Servers = append(cfg.Servers, config.ServerConfig{Addr: sp.addr, Locations: []string{"l", "lpt"}, Cache: cc.Name,
				Compress: comps[sp.name], CompressMinLength: mins[sp.name], CompressContentTypeFilter: sp.filter})
			if i%2 == 1 {
				// an access log on every second server: the logger middleware wraps the whole chain
				cfg.Servers[len(cfg.Servers)-1].LogFormat = "{method} {uri} {status} {<x-status} {size-human} {latency}"
			}
		}
		return cfg
	})
	return w, specs, stores
}

func c05Gen(rnd *rand.Rand, i int, srvs []c05Srv) (c05Case, c05Srv) {
	s := srvs[rnd.Intn(len(srvs))]
	c := c05Case{URI: fmt.Sprintf("/c05/%d", i), Server: s.name, Method: "GET"}
	switch rnd.Intn(10) {
	case 0:
		c.Method = "POST"
	}
	c.Status = []int{200, 200, 200, 201, 203, 404, 500}[rnd.Intn(7)]
	sizes := []int{0, 1, 2, 17, s.min - 1, s.min, s.min + 1, s.min + 300, 4096, 65536, 200000}
	c.BodyLen = sizes[rnd.Intn(len(sizes))]
	if rnd.Intn(60) == 0 {
		c.BodyLen = 2 << 20
	}
	if c.BodyLen < 0 {
		c.BodyLen = 0
	}
	c.BodyKind = []string{"rand", "text", "runs", "zero"}[rnd.Intn(4)]
	c.Encoding = []string{"", "", "gzip", "br", "lz4", "zst", "snz", "gzip-multi"}[rnd.Intn(8)]
	c.Level = 1 + rnd.Intn(9)
	c.Type = []string{"text/html; charset=utf-8", "application/json", "image/png", "application/custom", "application/octet-stream"}[rnd.Intn(5)]
	c.Cacheable = rnd.Intn(4) != 0
	c.Extra = [][2]string{{"X-Multi", "one"}, {"X-Multi", "two, three"}, {"Vary", "Accept-Language"}, {"X-Utf8", "café"}}
	if rnd.Intn(3) == 0 {
		c.Extra = append(c.Extra, [2]string{"Link", "</a>; rel=preload"}, [2]string{"Link", "</b>; rel=preload"}, [2]string{"ETag", `"v` + strconv.Itoa(i) + `"`})
	}
	return c, s
}

func c05Compare(r *hx.Run, w *W, c c05Case, path, accept string, res *hx.Result) bool {
	cs := map[string]interface{}{"case": c, "path": path, "accept": accept}
	r.Eval(1)
	if res.Err != nil && res.Status == 0 {
		r.Violate("request_failed", map[string]string{"path": path}, "request failed: "+res.Err.Error(), res.Brief(), cs)
		return false
	}
	f := w.Farm.ByID(res.FetchID)
	if res.Label == "" && res.Status >= 400 {
		// pike's own error answer instead of the upstream's response
		params := map[string]string{"path": path, "upstream_encoding": c.Encoding}
		fs := w.Farm.ByReqID(res.ReqID)
		if f == nil && len(fs) > 0 {
			f = fs[0]
		}
		if f != nil && f.Reply != nil && len(f.Reply.Body) > 0 {
			if len(f.Reply.OrigBody())/len(f.Reply.Body) >= 10 {
				params["ratio"] = "over_10"
			} else {
				params["ratio"] = "under_10"
			}
		}
		r.Violate("upstream_response_lost", params, fmt.Sprintf("pike answered %d with its own error for an upstream response in the documented encoding %q (%d bytes %s)", res.Status, c.Encoding, c.BodyLen, c.BodyKind), res.Brief(), cs)
		return false
	}
	if f == nil || f.Reply == nil {
		r.Violate("response_not_from_upstream", map[string]string{"path": path}, "response carries no known upstream fetch", res.Brief(), cs)
		return false
	}
	rep := f.Reply
	if res.Status != rep.Status {
		r.Violate("status_altered", map[string]string{"path": path}, fmt.Sprintf("status %d, upstream sent %d", res.Status, rep.Status), res.Brief(), cs)
		return false
	}
	if res.CE != "" && !acceptsToken(accept, res.CE) {
		r.Violate("content_encoding_not_accepted", map[string]string{"path": path, "ce": res.CE}, fmt.Sprintf("Content-Encoding %q for Accept-Encoding %q", res.CE, accept), res.Brief(), cs)
		return false
	}
	if res.Req.Method != "HEAD" {
		if res.DecErr != nil {
			r.Violate("body_undecodable", map[string]string{"path": path}, "body does not decode per the returned Content-Encoding: "+res.DecErr.Error(), res.Brief(), cs)
			return false
		}
		if !bytes.Equal(res.Decoded, rep.OrigBody()) {
			r.Violate("body_altered", map[string]string{"path": path, "upstream_encoding": c.Encoding}, fmt.Sprintf("decoded body (%d bytes) differs from the upstream's decoded body (%d bytes)", len(res.Decoded), len(rep.OrigBody())), res.Brief(), cs)
			return false
		}
		if res.CLHeader != "" && res.CLHeader != strconv.Itoa(len(res.Raw)) {
			r.Violate("content_length_mismatch", map[string]string{"path": path}, fmt.Sprintf("Content-Length %s but %d bytes received", res.CLHeader, len(res.Raw)), res.Brief(), cs)
			return false
		}
	}
	// end-to-end headers: name, multiset and per-name order of values
	want := http.Header{}
	for _, kv := range rep.Header {
		k := http.CanonicalHeaderKey(kv[0])
		if !c05HopOrVolatile[k] {
			want[k] = append(want[k], kv[1])
		}
	}
	want["X-Fetch"] = []string{strconv.FormatInt(f.ID, 10)}
	got := http.Header{}
	for k, v := range res.Header {
		if !c05HopOrVolatile[k] {
			got[k] = v
		}
	}
	if fmt.Sprint(sortedHeader(want)) != fmt.Sprint(sortedHeader(got)) {
		r.Violate("headers_altered", map[string]string{"path": path}, fmt.Sprintf("end-to-end headers differ: upstream %v, client %v", sortedHeader(want), sortedHeader(got)), res.Brief(), cs)
		return false
	}
	r.Add("path_"+path, 1)
	r.Add("upstream_encoding_"+encName(c.Encoding), 1)
	return true
}

func encName(e string) string {
	if e == "" {
		return "identity"
	}
	return e
}

func sortedHeader(h http.Header) []string {
	var out []string
	for k, v := range h {
		out = append(out, k+"="+strings.Join(v, "|"))
	}
	sort.Strings(out)
	return out
}

func c05(r *hx.Run) {
	r.Rule = "cases: body length from {0,1,2,17,min-1,min,min+1,min+300,4 KiB,64 KiB,200 KB,(rarely 2 MiB)} x kind {random, text, long runs, zeros (ratio up to >1000x)} x upstream encoding {identity,gzip (single and multi-member),br,lz4,zst,snz} (reference encoders self-checked) x content type x status {200,201,203,404,500} x cacheable or not x GET/POST, on six servers (min length default/1/100/64kb, custom filter, compress levels 1/9+11/out-of-range, tiny cache with store); paths: fetching request and waiters (burst of 3), later hits, hit after restore from the store (after eviction), hit-for-pass, passed, and hits on entries stored earlier in the run (after many other responses have been compressed); each request with its own Accept-Encoding from 13 plain lists. Compared: status, decoded body, Content-Encoding accepted (token match), Content-Length, end-to-end headers (multiset and order). Non-trivial/distinct = (path, upstream encoding, accept class, size class, kind, server)."
	r.Assume = []string{"Date, Connection, Content-Length, Content-Encoding, Age, X-Status and hop-by-hop headers are excluded from the header comparison", "br/lz4/zst/snz reference codecs are the libraries pike links"}
	rnd := rand.New(rand.NewSource(r.Seed))
	w, srvs, stores := c05World(r)
	defer w.Farm.Close()
	var cur c05Case
	var skipped int64
	var mainScript func(f *hx.Fetch) *hx.Reply
	mainScript = func(f *hx.Fetch) *hx.Reply {
		if strings.HasPrefix(f.URI, "/fill/") {
			return &hx.Reply{Status: 200, Header: [][2]string{{"Cache-Control", "max-age=600"}}, Body: []byte("fill")}
		}
		c := cur
		orig := hx.PRNGBytes(f.ID, c.BodyLen, c.BodyKind)
		var enc []byte
		var err error
		if c.Encoding == "gzip-multi" {
			// a valid gzip stream of two members (cat a.gz b.gz)
			c.Encoding = "gzip"
			h := len(orig) / 3
			enc = append(hx.GzipBytes(orig[:h], c.Level), hx.GzipBytes(orig[h:], c.Level)...)
			if back, e := hx.GunzipBytes(enc); e != nil || !bytes.Equal(back, orig) {
				err = fmt.Errorf("multi-member self-check failed")
			}
		} else {
			enc, err = hx.Encode(c.Encoding, orig, c.Level)
		}
		if err != nil {
			// the reference encoder cannot produce this stream (e.g. empty lz4 block): plain identity
			skipped++
			enc = orig
			c.Encoding = ""
		}
		if len(orig) == 0 && (c.Encoding == "gzip" || c.Encoding == "br") && c.Status%2 == 0 {
			// an upstream that labels an empty body with the coding it would have used (nothing on the wire)
			enc = orig
		}
		h := [][2]string{{"Content-Type", c.Type}}
		if c.Cacheable {
			h = append(h, [2]string{"Cache-Control", "max-age=600"})
		} else {
			h = append(h, [2]string{"Cache-Control", "no-cache"})
		}
		h = append(h, c.Extra...)
		return &hx.Reply{Status: c.Status, Header: h, Body: enc, Orig: orig, Encoding: c.Encoding}
	}
	w.Farm.SetScript(mainScript)
	n := r.Pick(400, 12000)
	type visited struct {
		c c05Case
		s c05Srv
	}
	var earlier []visited
	revisit := func() {
		// entries stored earlier must still be served unaltered after many other responses were compressed
		for k := 0; k < 12 && len(earlier) > 0; k++ {
			v := earlier[rnd.Intn(len(earlier))]
			accept := c05Accepts[rnd.Intn(len(c05Accepts))]
			hdr := http.Header{}
			if accept != "" {
				hdr.Set("Accept-Encoding", accept)
			}
			res := w.Cl.Do(hx.Req{Method: "GET", Addr: v.s.addr, Host: "c05.example", URI: v.c.URI, Header: hdr})
			if res.Label == "hit" {
				c05Compare(r, w, v.c, "revisited_hit", accept, res)
			}
		}
	}
	for i := 0; i < n && !r.TooMany(); i++ {
		c, s := c05Gen(rnd, i, srvs)
		if i%10 == 9 {
			revisit()
		}
		cur = c
		do := func(path string, burstN int) bool {
			accepts := make([]string, burstN)
			results := make([]*hx.Result, burstN)
			done := make(chan int, burstN)
			for j := 0; j < burstN; j++ {
				accepts[j] = c05Accepts[rnd.Intn(len(c05Accepts))]
			}
			for j := 0; j < burstN; j++ {
				go func(j int) {
					hdr := http.Header{}
					if accepts[j] != "" {
						hdr.Set("Accept-Encoding", accepts[j])
					}
					var body []byte
					if c.Method == "POST" {
						body = []byte("post-body")
					}
					results[j] = w.Cl.Do(hx.Req{Method: c.Method, Addr: s.addr, Host: "c05.example", URI: c.URI, Header: hdr, Body: body})
					done <- j
				}(j)
			}
			for j := 0; j < burstN; j++ {
				<-done
			}
			ok := true
			for j, res := range results {
				p := path
				if p == "first" {
					switch res.Label {
					case "fetching":
						p = "fetching"
					case "hit":
						p = "waiter_or_hit"
					case "hitForPass":
						p = "waiter_pass"
					case "passed":
						p = "passed"
					}
				}
				if !c05Compare(r, w, c, p, accepts[j], res) {
					ok = false
				}
				sizeClass := "mid"
				switch {
				case c.BodyLen <= 2:
					sizeClass = "tiny"
				case c.BodyLen >= s.min-1 && c.BodyLen <= s.min+1:
					sizeClass = "threshold"
				case c.BodyLen >= 65536:
					sizeClass = "large"
				}
				r.Distinct(strings.Join([]string{p, c.Encoding, accepts[j], sizeClass, c.BodyKind, s.name}, "|"))
			}
			return ok
		}
		if c.Method == "GET" && i%6 == 5 {
			// a HEAD for the same URL first (its own key): the GET must still get the whole body
			hrq := hx.Req{Method: "HEAD", Addr: s.addr, Host: "c05.example", URI: c.URI}
			if i%12 == 5 {
				hrq.Header = http.Header{"Accept-Encoding": {"gzip, br"}}
			}
			hres := w.Cl.Do(hrq)
			if hres.Err != nil || len(hres.Raw) != 0 || hres.Status != c.Status {
				r.Violate("head_answer_wrong", nil, fmt.Sprintf("HEAD: err %v, status %d (upstream %d), %d body bytes", hres.Err, hres.Status, c.Status, len(hres.Raw)), hres.Brief(), c)
			}
			r.Add("head_before_get", 1)
		}
		if !do("first", 3) {
			continue
		}
		if c.Method == "POST" {
			continue
		}
		later := "hit"
		if !c.Cacheable {
			later = "hit_for_pass"
		}
		if !do(later, 3) {
			continue
		}
		if c.Cacheable && !s.store && len(earlier) < 400 {
			earlier = append(earlier, visited{c, s})
		}
		if s.store && c.Cacheable {
			// evict the key from the tiny LRU, then come back: restored from the store
			for k := 0; k < 40; k++ {
				w.Cl.Get(s.addr, "c05.example", fmt.Sprintf("/fill/%d/%d", i, k))
			}
			before := w.Farm.LogLen()
			ok := do("restored_from_store", 2)
			if ok && len(w.Farm.LogSince(before)) == 0 {
				r.Add("restores_served_without_upstream_contact", 1)
			}
		}
		if i%400 == 0 {
			r.Sample(c)
		}
	}
	c05Truncated(r, w, srvs, rnd)
	w.Farm.SetScript(mainScript)
	c05AliasStress(r, w, srvs, rnd, &cur)
	r.Add("cases_where_reference_encoder_declined", skipped)
	_ = stores
}

func init() { register("C05", "exploration", c05) }

// c05AliasStress: many small compressible entries are stored in quick succession (few garbage
// collections, so recycled buffers stay around), then all are read back with every coding: a stored
// variant that shares memory with a later compression shows up as an altered body
func c05AliasStress(r *hx.Run, w *W, srvs []c05Srv, rnd *rand.Rand, cur *c05Case) {
	old := debug.SetGCPercent(800)
	defer debug.SetGCPercent(old)
	rounds := r.Pick(3, 40)
	for round := 0; round < rounds && !r.TooMany(); round++ {
		s := srvs[rnd.Intn(3)]
		n := 120
		cases := make([]c05Case, n)
		for i := range cases {
			cases[i] = c05Case{URI: fmt.Sprintf("/c05alias/%d/%d", round, i), Server: s.name, Method: "GET", Status: 200, BodyLen: 1500 + rnd.Intn(3000), BodyKind: "text",
				Encoding: []string{"", "", "gzip", "zst"}[rnd.Intn(4)], Level: 5, Type: "text/html", Cacheable: true}
		}
		for i := range cases {
			*cur = cases[i]
			accept := []string{"gzip", "br", ""}[rnd.Intn(3)]
			hdr := http.Header{}
			if accept != "" {
				hdr.Set("Accept-Encoding", accept)
			}
			res := w.Cl.Do(hx.Req{Addr: s.addr, Host: "c05.example", URI: cases[i].URI, Header: hdr})
			c05Compare(r, w, cases[i], "alias_stress_store", accept, res)
		}
		// many clients at once that accept no coding: each answer is decompressed from the stored variant
		{
			var cwg sync.WaitGroup
			results := make([]*hx.Result, len(cases))
			for i := range cases {
				cwg.Add(1)
				go func(i int) {
					defer cwg.Done()
					results[i] = w.Cl.Do(hx.Req{Addr: s.addr, Host: "c05.example", URI: cases[i].URI})
				}(i)
			}
			cwg.Wait()
			for i, res := range results {
				if res.Label == "hit" {
					c05Compare(r, w, cases[i], "alias_stress_concurrent_identity", "", res)
				}
			}
		}
		for pass := 0; pass < 2; pass++ {
			for i := range cases {
				accept := []string{"gzip", "br", "", "gzip, identity"}[(i+pass)%4]
				hdr := http.Header{}
				if accept != "" {
					hdr.Set("Accept-Encoding", accept)
				}
				res := w.Cl.Do(hx.Req{Addr: s.addr, Host: "c05.example", URI: cases[i].URI, Header: hdr})
				if res.Label == "hit" {
					c05Compare(r, w, cases[i], "alias_stress_readback", accept, res)
				}
			}
		}
		r.Add("alias_stress_rounds", 1)
	}
}

// c05Truncated: the upstream connection dies in the middle of the body (with and without a proxy timeout
// on the location): the partial body must never be delivered as a complete 200, let alone stored
func c05Truncated(r *hx.Run, w *W, srvs []c05Srv, rnd *rand.Rand) {
	n := r.Pick(20, 300)
	for i := 0; i < n && !r.TooMany(); i++ {
		s := srvs[rnd.Intn(len(srvs))]
		prefix := "/c05tr/"
		if i%2 == 0 {
			prefix = "/c05pt/"
		}
		uri := fmt.Sprintf("%s%d", prefix, i)
		size := []int{300, 5000, 70000}[rnd.Intn(3)]
		w.Farm.SetScript(func(f *hx.Fetch) *hx.Reply {
			body := hx.IdentBody(f, size, "text")
			rep := &hx.Reply{Status: 200, Header: [][2]string{{"Content-Type", "text/plain"}, {"Cache-Control", "max-age=600"}}, Body: body}
			if f.Nth == 1 {
				rep.Truncate = true // announces len(body)+100 bytes, sends len(body), closes
			}
			return rep
		})
		first := w.Cl.Do(hx.Req{Addr: s.addr, Host: "c05.example", URI: uri, Header: http.Header{"Accept-Encoding": {"gzip"}}})
		cs := map[string]interface{}{"uri": uri, "server": s.name, "proxy_timeout_on_location": i%2 == 0, "body_len": size}
		r.Eval(1)
		r.Add("truncated_upstream_bodies", 1)
		if first.Err == nil && first.Status == 200 {
			r.Violate("truncated_upstream_body_delivered_as_complete", map[string]string{"proxy_timeout": fmt.Sprint(i%2 == 0)}, fmt.Sprintf("the upstream closed the connection %d bytes short of its Content-Length, the client got a complete 200", 100), first.Brief(), cs)
			continue
		}
		for k := 0; k < 2; k++ {
			res := w.Cl.Do(hx.Req{Addr: s.addr, Host: "c05.example", URI: uri})
			if res.Err != nil || res.Status != 200 || !res.HasIdent || !res.Ident.Intact || res.Ident.N != size {
				r.Violate("body_altered", map[string]string{"path": "after_truncated_fetch"}, "after a fetch whose upstream body was cut short, the key is not served with the full body", res.Brief(), cs)
				break
			}
		}
		r.Distinct(fmt.Sprintf("truncated|%s|%v|%d", s.name, i%2 == 0, size))
	}
}
