package main

import (
	"fmt"
	"math/rand"
	"sync"
	"sync/atomic"
	"time"

	"github.com/anishathalye/porcupine"
	"github.com/vicanso/pike/cache"
	"github.com/vicanso/pike/config"
	"verifh/hx"
)

// C07: hit-for-pass.

type c07Inst struct {
	store bool   // tiny cache backed by a store: the marker is evicted and reloaded during the period
	cfg   string // configured hitForPass string
	p     int64  // effective seconds
	cache string
	addr  string
}

type c07Burst struct {
	At     string `json:"at"` // offset description
	N      int    `json:"n"`
	Answer ans    `json:"answer"`
}

func c07World(r *hx.Run) (*W, []c07Inst) {
	specs := []struct {
		s     string
		p     int64
		store bool
	}{{"1s", 1, false}, {"2s", 2, false}, {"5m", 300, false}, {"0s", 300, false}, {"-3s", 300, false}, {"500ms", 300, false}, {"90s", 90, false}, {"2s", 2, true}, {"5m", 300, true}}
	ports := hx.FreePorts(len(specs))
	var insts []c07Inst
	w := newWorldCfg(r, 1, true, func(origins []string) *config.PikeConfig {
		cfg := &config.PikeConfig{
			Upstreams: []config.UpstreamConfig{{Name: "u", Servers: []config.UpstreamServerConfig{{Addr: origins[0]}}}},
			Locations: []config.LocationConfig{{Name: "l", Upstream: "u"}},
		}
		for i, sp := range specs {
			name := fmt.Sprintf("hfp%d", i)
			cc := config.CacheConfig{Name: name, Size: 100000, HitForPass: sp.s}
			if sp.store {
				cc.Size = 8
				cc.Store = "mem://c07/" + name
				hx.NewMemStore(cc.Store)
			}
			cfg.Caches = append(cfg.Caches, cc)
			addr := srvAddr(ports[i])
			cfg.Servers = append(cfg.Servers, config.ServerConfig{Addr: addr, Locations: []string{"l"}, Cache: name})
			insts = append(insts, c07Inst{sp.store, sp.s, sp.p, name, addr})
		}
		return cfg
	})
	return w, insts
}

// heldBurst sends n identical requests while the origin holds every contact of the key. It
// waits until every request is accounted for (in flight at the origin, parked on the entry, or
// already answered), then releases the origin.
func heldBurst(w *W, ps *plans, uri, key string, in c07Inst, n int, a ans) (res []*hx.Result, maxIn int, parked int64, settled bool, inflightAtSettle int) {
	gate := make(chan struct{})
	var once sync.Once
	release := func() { once.Do(func() { close(gate) }) }
	ps.set(uri, &plan{Seq: []ans{a}, Gate: func(f *hx.Fetch) <-chan struct{} { return gate }})
	// contacts of the previous step must be over at the origin before this one is counted
	hx.WaitUntil(10*time.Second, func() bool { return w.Farm.InflightKey(key) == 0 })
	baseReg := w.Pts.Count("get.registered")
	w.Farm.ResetMaxInflight()
	var returned atomic.Int64
	res = make([]*hx.Result, n)
	var wg sync.WaitGroup
	for i := 0; i < n; i++ {
		wg.Add(1)
		go func(i int) {
			defer wg.Done()
			res[i] = w.Cl.Do(hx.Req{Addr: in.addr, Host: "c07.example", URI: uri, Proc: i})
			returned.Add(1)
		}(i)
	}
	accounted := func() bool {
		inf := w.Farm.InflightKey(key)
		reg := int(w.Pts.Count("get.registered") - baseReg)
		return inf+reg+int(returned.Load()) >= n
	}
	// every request is at the origin, parked on the entry, or has returned; a second, equally long wait
	// before a request that is nowhere to be seen counts as stuck inside the proxy
	settled = hx.WaitUntil(15*time.Second, accounted) || hx.WaitUntil(15*time.Second, accounted)
	inflightAtSettle = w.Farm.InflightKey(key)
	parked = w.Pts.Count("get.registered") - baseReg
	release()
	wg.Wait()
	maxIn = w.Farm.MaxInflight(key)
	return
}

var c07Reapplied atomic.Int64

func c07History(r *hx.Run, w *W, ps *plans, rnd *rand.Rand, in c07Inst, hi int) {
	uri := fmt.Sprintf("/c07/%d/%d", r.Seed, hi)
	key := "GET c07.example " + uri
	m := &entryModel{HFP: in.p, TolerateStale: true}
	periods := 3 + rnd.Intn(4)
	var trace []interface{}
	defer ps.del(uri)
	kinds := []string{"nocache", "nocc", "5xx", "abort", "truncate", "cacheable"}
	probeKinds := append(append([]string{}, kinds...), "client_abort")
	passPeriods, boundaryProbes, fullOverlap := 0, 0, 0
	for pi := 0; pi < periods && !r.TooMany(); pi++ {
		// the probe that starts this period
		probe := ans{Kind: probeKinds[rnd.Intn(len(probeKinds))], T: []int64{1, 2, 7}[rnd.Intn(3)]}
		if pi == 0 && probe.Kind == "cacheable" {
			probe.Kind = "nocache"
		}
		type step struct {
			adv  int64
			desc string
		}
		var steps []step
		steps = append(steps, step{0, "probe"})
		if probe.Kind == "cacheable" {
			steps = append(steps, step{probe.T, "at_T"}, step{1, "T+1"})
		} else {
			offs := []int64{0, 1, in.p - 1, in.p}
			last := int64(0)
			for _, o := range offs {
				if o < last {
					continue
				}
				steps = append(steps, step{o - last, fmt.Sprintf("mark+%d", o)})
				last = o
			}
			steps = append(steps, step{in.p + 1 - last, "mark+P+1"})
		}
		for si, st := range steps {
			if si == len(steps)-1 {
				// the last step only moves the clock past the period; the next period's probe follows
				w.Clock.Advance(st.adv)
				break
			}
			now := w.Clock.Advance(st.adv)
			m.normalise(now)
			// (at most 150 times per run: every re-apply replaces the upstream transports, whose idle
			// connections stay open until their idle timeout - file descriptors of this process)
			if si > 0 && hi%3 == 1 && rnd.Intn(2) == 0 && c07Reapplied.Add(1) <= 150 {
				// the unchanged configuration is applied again (any unrelated configuration change does that):
				// markers and entries of the surviving caches are kept
				w.apply(r)
				r.Add("configuration_reapplied_inside_a_period", 1)
			}
			if in.store && rnd.Intn(2) == 0 {
				for k := 0; k < 24; k++ {
					w.Cl.Get(in.addr, "c07.example", fmt.Sprintf("/c07fill/%d", k))
				}
				r.Add("marker_evictions_forced", 1)
			}
			n := []int{1, 2, 3, 6, 12, 24}[rnd.Intn(6)]
			if rnd.Intn(14) == 0 {
				n = 64 // wider than the connection pools involved
			}
			a := probe
			if si > 0 {
				a = ans{Kind: kinds[rnd.Intn(len(kinds))], T: 5}
			}
			stateBefore := m.State
			modelBefore := m.String()
			before := w.Farm.LogLen()
			if a.Kind == "client_abort" && stateBefore == stNone {
				// the probe is a single request whose client drops the connection while the upstream is
				// still working: the fetch has failed, the key must be hit-for-pass afterwards
				gate := make(chan struct{})
				ps.set(uri, &plan{Seq: []ans{{Kind: "nocache"}}, Gate: func(*hx.Fetch) <-chan struct{} { return gate }})
				quitter := hx.NewClient(w.Clock.Now)
				defer quitter.CloseIdle()
				qdone := make(chan struct{})
				savedBefore := completionsDone(w.Pts)
				go func() {
					defer close(qdone)
					quitter.Do(hx.Req{Addr: in.addr, Host: "c07.example", URI: uri, Timeout: 10 * time.Second})
				}()
				if !hx.WaitUntil(10*time.Second, func() bool { return w.Farm.InflightKey(key) == 1 }) {
					// the step could not be established: the rest of this history would be judged against a model
					// that assumes it happened
					r.InconclusiveCase("C07: aborted probe did not reach the origin")
					quitter.Abort()
					<-qdone
					close(gate)
					return
				}
				quitter.Abort()
				<-qdone
				close(gate)
				hx.WaitUntil(10*time.Second, func() bool { return completionsDone(w.Pts) > savedBefore })
				m.afterFetch(0, ans{Kind: "nocache"}, now)
				r.Add("probes_whose_client_went_away", 1)
				trace = append(trace, map[string]interface{}{"step": st.desc, "now": now, "answer": "client_abort", "model_after": m.String()})
				continue
			}
			if a.Kind == "client_abort" {
				a.Kind = "nocache"
			}
			res, maxIn, parked, settled, infAtSettle := heldBurst(w, ps, uri, key, in, n, a)
			fetches := w.Farm.LogSince(before)
			var fs []*hx.Fetch
			for _, f := range fetches {
				if f.URI == uri {
					fs = append(fs, f)
				}
			}
			cs := map[string]interface{}{"uri": uri, "hit_for_pass_config": in.cfg, "tiny_cache_with_store": in.store, "effective_seconds": in.p, "period": pi, "step": st.desc, "now": now, "burst": n, "answer": a, "model_before": modelBefore}
			r.Eval(1)
			r.Add("requests", int64(n))
			kind, text := m.burstCheck(now, res, fs, func(*hx.Fetch) ans { return a }, false)
			if len(trace) < 60 {
				trace = append(trace, map[string]interface{}{"step": st.desc, "now": now, "n": n, "answer": a.Kind, "labels": labelsOf(res), "contacts": len(fs), "max_inflight": maxIn, "in_flight_when_settled": infAtSettle, "parked": parked, "model_after": m.String()})
			}
			if kind != "" {
				r.Violate(kind, map[string]string{"mode": "history", "state": fmt.Sprint(stateBefore)}, text, map[string]interface{}{"trace": trace}, cs)
				return
			}
			switch stateBefore {
			case stHFP:
				passPeriods++
				if st.desc == fmt.Sprintf("mark+%d", in.p) {
					boundaryProbes++
					r.Add("bursts_at_last_second_of_period", 1)
				}
				if parked > 0 {
					r.Violate("pass_request_queued", map[string]string{"mode": "history"}, fmt.Sprintf("%d requests parked on the entry during the hit-for-pass period", parked), map[string]interface{}{"trace": trace}, cs)
					return
				}
				if !settled {
					// neither at the origin (which holds every contact), nor parked on the entry, nor answered
					// after 30 s: the missing requests are queued somewhere between the entry and the upstream
					r.Violate("pass_requests_not_independent", map[string]string{"mode": "history", "where": "queued_before_the_upstream"}, fmt.Sprintf("burst of %d during the period: %d in flight at the origin, %d parked, the others neither forwarded nor answered within 30 s", n, infAtSettle, parked), map[string]interface{}{"trace": trace}, cs)
					return
				} else if infAtSettle < n {
					r.Violate("pass_requests_not_independent", map[string]string{"mode": "history"}, fmt.Sprintf("burst of %d during the period: only %d were in flight together while the origin held them all", n, infAtSettle), map[string]interface{}{"trace": trace}, cs)
					return
				} else {
					fullOverlap++
					r.Add("pass_bursts_fully_overlapping", 1)
				}
			case stNone:
				if pi > 0 || si > 0 {
					r.Add("probes_after_period", 1)
				}
				// the single probe: exactly one in flight while the others are parked
				if settled && n > 1 && (parked != int64(n-1) || infAtSettle != 1) {
					r.Violate("probe_not_single", map[string]string{"mode": "history"}, fmt.Sprintf("probe burst of %d: %d parked (expected %d), %d in flight (expected 1)", n, parked, n-1, infAtSettle), map[string]interface{}{"trace": trace}, cs)
					return
				}
				if !settled {
					r.InconclusiveCase("probe burst did not settle")
				}
			}
		}
	}
	r.Add("periods", int64(periods))
	if passPeriods > 0 && fullOverlap > 0 {
		r.Distinct(fmt.Sprintf("P=%s store=%v trace=%v", in.cfg, in.store, trace))
	}
	if hi < 4 {
		r.Sample(map[string]interface{}{"hit_for_pass_config": in.cfg, "effective_seconds": in.p, "trace": trace})
	}
	_ = boundaryProbes
}

// c07Porcupine: staggered clients, clock advancer, answers drawn per fetch
func c07Porcupine(r *hx.Run, w *W, rnd *rand.Rand, in c07Inst, n int) {
	kinds := []string{"nocache", "cacheable", "5xx", "nocc"}
	for hi := 0; hi < n && !r.TooMany(); hi++ {
		uri := fmt.Sprintf("/c07p/%d/%d", r.Seed, hi)
		var amu sync.Mutex
		answers := map[int64]ans{}
		lrA := rand.New(rand.NewSource(rnd.Int63()))
		w.Farm.SetScript(func(f *hx.Fetch) *hx.Reply {
			amu.Lock()
			a := ans{Kind: kinds[lrA.Intn(len(kinds))], T: int64(1 + lrA.Intn(3))}
			answers[f.ID] = a
			amu.Unlock()
			return replyOf(f, a)
		})
		start := w.Clock.Now()
		var mu sync.Mutex
		var results []*hx.Result
		var procs []int
		var adv []porcupine.Operation
		var wg sync.WaitGroup
		clients := 8
		seeds := make([]int64, clients+1)
		for i := range seeds {
			seeds[i] = rnd.Int63()
		}
		for c := 0; c < clients; c++ {
			wg.Add(1)
			go func(c int) {
				defer wg.Done()
				lr := rand.New(rand.NewSource(seeds[c]))
				for i := 0; i < 6; i++ {
					res := w.Cl.Do(hx.Req{Addr: in.addr, Host: "c07.example", URI: uri, Proc: c})
					mu.Lock()
					results = append(results, res)
					procs = append(procs, c)
					mu.Unlock()
					if lr.Intn(2) == 0 {
						time.Sleep(time.Duration(lr.Intn(400)) * time.Microsecond)
					}
				}
			}(c)
		}
		wg.Add(1)
		go func() {
			defer wg.Done()
			lr := rand.New(rand.NewSource(seeds[clients]))
			for i := 0; i < 8; i++ {
				time.Sleep(time.Duration(100+lr.Intn(500)) * time.Microsecond)
				d := int64(1 + lr.Intn(int(in.p)+1))
				call := hx.Seq()
				w.Clock.Advance(d)
				ret := hx.Seq()
				mu.Lock()
				adv = append(adv, porcupine.Operation{ClientId: clients, Input: pIn{Op: "advance", D: d}, Call: call, Output: pOut{}, Return: ret})
				mu.Unlock()
			}
		}()
		wg.Wait()
		ops := append([]porcupine.Operation{}, adv...)
		passes := 0
		for i, res := range results {
			life := int64(0)
			if res.Label == "fetching" {
				amu.Lock()
				life = answers[res.FetchID].lifetime()
				amu.Unlock()
			}
			if res.Label == "hitForPass" {
				passes++
			}
			ops = append(ops, reqOp(procs[i], res, in.p, life))
		}
		verdict := porcupineCheck(start, ops)
		r.Eval(1)
		r.Add("porcupine_partitions", 1)
		r.Add("porcupine_ops", int64(len(ops)))
		r.Add("porcupine_"+verdict, 1)
		if passes > 0 {
			r.Distinct(fmt.Sprintf("porcupine %s %d", in.cfg, hi))
		}
		if verdict == "illegal" {
			r.Violate("history_not_linearizable", map[string]string{"mode": "porcupine"}, "history is not linearizable against the entry model (hit-for-pass period "+in.cfg+")", describeOps(ops), map[string]interface{}{"uri": uri, "hit_for_pass": in.cfg})
		}
		w.Clock.Advance(in.p + 5)
	}
}

func c07(r *hx.Run) {
	r.Rule = "histories per configured period {1s,2s,5m,0s,-3s,500ms,90s} (non-positive and sub-second => 300 s), in a third of them the unchanged configuration is applied again inside the period: 3-6 periods started by a probe answered uncacheable/no Cache-Control/5xx/protocol error/truncated body (handler abort)/cacheable, bursts of 1-24 (and 64) at mark+0, +1, +P-1, +P (still pass) and +P+1 (single probe), all upstream contacts of a burst held at the origin until they are in flight together (=> not queued) or hooked state shows requests parked; plus staggered porcupine histories with a concurrent clock advancer. Non-trivial = history with >=1 pass burst fully overlapping at the origin; distinct = trace."
	r.Assume = []string{"virtual clock hook", "no eviction (cache 100000 >> keys)", "-race build"}
	rnd := rand.New(rand.NewSource(r.Seed))
	w, insts := c07World(r)
	defer w.Farm.Close()
	w.Pts = hx.InstallPoints(r.Seed)
	ps := &plans{}
	w.Farm.SetScript(ps.script)
	for _, in := range insts {
		if d := cache.GetDispatcher(in.cache); d == nil {
			r.Inconclusive("dispatcher missing " + in.cache)
			return
		}
	}
	n := r.Pick(100, 4000)
	for hi := 0; hi < n && !r.TooMany(); hi++ {
		c07History(r, w, ps, rnd, insts[hi%len(insts)], hi)
		if hi%40 == 0 {
			w.Farm.Trim()
		}
	}
	np := r.Pick(40, 1500)
	w.Pts.SetJitter(c01JitterPoints, 200)
	for i, in := range []c07Inst{insts[0], insts[1]} {
		_ = i
		c07Porcupine(r, w, rnd, in, np/2)
	}
	r.Set("points_hit", w.Pts.Counts())
	checkRaceLog(r)
}

func init() { register("C07", "exploration", c07) }
