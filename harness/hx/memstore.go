package hx

import (
	"errors"
	"sync"
	"time"

	"github.com/vicanso/pike/store"
)

// StoreCall one call of the scripted store
type StoreCall struct {
	Seq   int64
	Op    string
	Key   string
	Fault string
	Len   int
	TTL   time.Duration
}

// StoreFault what the script wants for one call
type StoreFault struct {
	Kind  string // "" ok | notfound | error | delay | garble
	Delay time.Duration
	Data  []byte // replacement value for Get (garble kinds)
}

// ErrInjected the error returned by injected store faults
var ErrInjected = errors.New("injected store failure")

// MemStore in-memory store.Store with per-call fault script and call log
type MemStore struct {
	mu     sync.Mutex
	m      map[string][]byte
	calls  []StoreCall
	Script func(op, key string, cur []byte) StoreFault
	NoLog  bool
}

// NewMemStore new store, registered under url so that pike's NewDispatcher finds it
func NewMemStore(url string) *MemStore {
	s := &MemStore{m: map[string][]byte{}}
	if url != "" {
		store.VerifRegister(url, s)
	}
	return s
}

func (s *MemStore) script(op, key string, cur []byte) StoreFault {
	if s.Script == nil {
		return StoreFault{}
	}
	return s.Script(op, key, cur)
}

func (s *MemStore) logCall(c StoreCall) {
	if s.NoLog {
		return
	}
	c.Seq = Seq()
	s.mu.Lock()
	s.calls = append(s.calls, c)
	s.mu.Unlock()
}

// Get store.Store
func (s *MemStore) Get(key []byte) ([]byte, error) {
	k := string(key)
	s.mu.Lock()
	cur, ok := s.m[k]
	s.mu.Unlock()
	f := s.script("get", k, cur)
	if f.Delay > 0 {
		time.Sleep(f.Delay)
	}
	switch f.Kind {
	case "notfound":
		s.logCall(StoreCall{Op: "get", Key: k, Fault: f.Kind})
		return nil, store.ErrNotFound
	case "error":
		s.logCall(StoreCall{Op: "get", Key: k, Fault: f.Kind})
		return nil, ErrInjected
	case "", "delay":
		s.logCall(StoreCall{Op: "get", Key: k, Fault: f.Kind, Len: len(cur)})
		if !ok {
			return nil, store.ErrNotFound
		}
		return append([]byte{}, cur...), nil
	default:
		s.logCall(StoreCall{Op: "get", Key: k, Fault: f.Kind, Len: len(f.Data)})
		return append([]byte{}, f.Data...), nil
	}
}

// Set store.Store
func (s *MemStore) Set(key []byte, data []byte, ttl time.Duration) error {
	k := string(key)
	f := s.script("set", k, data)
	if f.Delay > 0 {
		time.Sleep(f.Delay)
	}
	s.logCall(StoreCall{Op: "set", Key: k, Fault: f.Kind, Len: len(data), TTL: ttl})
	if f.Kind == "error" {
		return ErrInjected
	}
	if f.Kind == "drop" {
		return nil // acknowledged but never applied: the process "died" before this write
	}
	s.mu.Lock()
	s.m[k] = append([]byte{}, data...)
	s.mu.Unlock()
	return nil
}

// Delete store.Store
func (s *MemStore) Delete(key []byte) error {
	k := string(key)
	f := s.script("delete", k, nil)
	if f.Delay > 0 {
		time.Sleep(f.Delay)
	}
	s.logCall(StoreCall{Op: "delete", Key: k, Fault: f.Kind})
	if f.Kind == "error" {
		return ErrInjected
	}
	if f.Kind == "drop" {
		return nil
	}
	s.mu.Lock()
	delete(s.m, k)
	s.mu.Unlock()
	return nil
}

// Close store.Store
func (s *MemStore) Close() error { return nil }

// Peek the stored value without logging
func (s *MemStore) Peek(key string) ([]byte, bool) {
	s.mu.Lock()
	defer s.mu.Unlock()
	v, ok := s.m[key]
	return v, ok
}

// Put sets a value directly
func (s *MemStore) Put(key string, v []byte) {
	s.mu.Lock()
	s.m[key] = v
	s.mu.Unlock()
}

// Len number of records
func (s *MemStore) Len() int {
	s.mu.Lock()
	defer s.mu.Unlock()
	return len(s.m)
}

// Calls snapshot of the call log
func (s *MemStore) Calls() []StoreCall {
	s.mu.Lock()
	defer s.mu.Unlock()
	return append([]StoreCall(nil), s.calls...)
}

// CallsSince calls from index n
func (s *MemStore) CallsSince(n int) []StoreCall {
	s.mu.Lock()
	defer s.mu.Unlock()
	if n >= len(s.calls) {
		return nil
	}
	return append([]StoreCall(nil), s.calls[n:]...)
}

// NCalls number of calls so far
func (s *MemStore) NCalls() int {
	s.mu.Lock()
	defer s.mu.Unlock()
	return len(s.calls)
}
