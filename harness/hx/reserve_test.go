//go:build verif

package hx

import (
	"net"
	"strconv"
	"testing"
	"time"
)

// a down origin's port refuses connections, is not handed to a listener on port 0, and the origin comes back on it
func TestReservedPortOfDownOrigin(t *testing.T) {
	fm := NewFarm(1, nil)
	defer fm.Close()
	o := fm.Origins[0]
	c, err := net.DialTimeout("tcp", o.Addr, time.Second)
	if err != nil {
		t.Fatal(err)
	}
	c.Close()
	o.Down()
	if c, err := net.DialTimeout("tcp", o.Addr, time.Second); err == nil {
		c.Close()
		t.Fatal("a down origin accepts connections")
	}
	for i := 0; i < 3000; i++ {
		ln, err := net.Listen("tcp", "127.0.0.1:0")
		if err != nil {
			t.Fatal(err)
		}
		p := ln.Addr().(*net.TCPAddr).Port
		ln.Close()
		if p == o.Port {
			t.Fatal("the port of a down origin was handed to another listener")
		}
	}
	if err := o.Up(); err != nil {
		t.Fatal(err)
	}
	c, err = net.DialTimeout("tcp", "127.0.0.1:"+strconv.Itoa(o.Port), time.Second)
	if err != nil {
		t.Fatal(err)
	}
	c.Close()
	p := DeadPort()
	if ln, err := net.Listen("tcp", "127.0.0.1:"+strconv.Itoa(p)); err == nil {
		ln.Close()
		t.Fatal("a dead port can be listened on")
	}
	if c, err := net.DialTimeout("tcp", "127.0.0.1:"+strconv.Itoa(p), time.Second); err == nil {
		c.Close()
		t.Fatal("a dead port accepts connections")
	}
}
