// vrun: the runtime-monitoring driver. One sub-command per property.
package main

import (
	"fmt"
	"io"
	"log"
	"os"
	"path/filepath"

	"verifh/hx"
)

type checkFn func(r *hx.Run)

var checks = map[string]struct {
	level string
	fn    checkFn
}{}

func register(id, level string, fn checkFn) {
	checks[id] = struct {
		level string
		fn    checkFn
	}{level, fn}
}

func main() {
	if len(os.Args) < 2 {
		fmt.Println("usage: vrun <property|child> [flags]")
		os.Exit(3)
	}
	id := os.Args[1]
	if id == "child" {
		childMain(os.Args[2:])
		return
	}
	c, ok := checks[id]
	if !ok {
		fmt.Println("unknown property", id)
		os.Exit(3)
	}
	f := hx.ParseFlags(os.Args[2:])
	// net/http and httputil report aborted handlers through the std logger: keep stdout/stderr for verdicts
	log.SetOutput(io.Discard)
	hx.QuietPikeLog(filepath.Join(f.Scratch, "pike-inproc.log"))
	r := hx.NewRun(id, c.level, f)
	c.fn(r)
	os.Exit(r.Finish())
}
