package hx

import (
	"bufio"
	"bytes"
	"context"
	"crypto/sha1"
	"encoding/hex"
	"fmt"
	"io"
	"net"
	"net/http"
	"net/url"
	"strconv"
	"sync"
	"sync/atomic"
	"time"
)

// Req one client request
type Req struct {
	Method  string
	Addr    string // pike server address host:port
	Host    string
	URI     string // request-URI sent verbatim
	Header  http.Header
	Body    []byte
	Timeout time.Duration
	Proc    int
	Chunked bool // send the body with Transfer-Encoding: chunked (unknown length)
}

// Result what the client saw
type Result struct {
	ReqID    string
	Req      Req
	CallSeq  int64
	RetSeq   int64
	VCall    int64
	VRet     int64
	Err      error
	Status   int
	Header   http.Header
	Raw      []byte
	CE       string
	Decoded  []byte
	DecErr   error
	Label    string
	Age      int // -1 when absent
	AgeRaw   string
	FetchID  int64 // from X-Fetch; 0 when absent
	Ident    Ident
	HasIdent bool
	CLHeader string
}

// Open whether the request never returned (timeout / connection error)
func (r *Result) Open() bool { return r.Err != nil }

// Brief short description for witnesses
func (r *Result) Brief() map[string]interface{} {
	m := map[string]interface{}{
		"req": r.ReqID, "method": r.Req.Method, "host": r.Req.Host, "uri": r.Req.URI,
		"call_seq": r.CallSeq, "ret_seq": r.RetSeq, "vcall": r.VCall, "vret": r.VRet,
		"status": r.Status, "label": r.Label, "age": r.Age, "ce": r.CE, "fetch": r.FetchID,
		"raw_len": len(r.Raw), "dec_sha": Sha(r.Decoded),
	}
	if len(r.Req.Header) > 0 {
		m["req_hdr"] = r.Req.Header
	}
	if r.Err != nil {
		m["err"] = r.Err.Error()
	}
	if r.DecErr != nil {
		m["dec_err"] = r.DecErr.Error()
	}
	return m
}

// Sha short sha1
func Sha(b []byte) string {
	s := sha1.Sum(b)
	return hex.EncodeToString(s[:6])
}

// Client recording http client
type Client struct {
	cancelMu sync.Mutex
	cancels  map[int64]context.CancelFunc
	HC       *http.Client
	Clock    func() int64
	next     atomic.Int64
	Pfx      string
}

var clientCounter atomic.Int64

// NewClient a client whose transport never negotiates compression itself
func NewClient(clock func() int64) *Client {
	if clock == nil {
		clock = func() int64 { return time.Now().Unix() }
	}
	tr := &http.Transport{
		DisableCompression:  true,
		MaxIdleConns:        1024,
		MaxIdleConnsPerHost: 256,
		IdleConnTimeout:     30 * time.Second,
		DialContext:         (&net.Dialer{Timeout: 5 * time.Second}).DialContext,
	}
	return &Client{
		HC:    &http.Client{Transport: tr, CheckRedirect: func(*http.Request, []*http.Request) error { return http.ErrUseLastResponse }},
		Clock: clock, Pfx: "r" + strconv.FormatInt(clientCounter.Add(1), 10) + "-",
	}
}

// Abort cancels every request of this client that is in flight (their connections are closed)
func (c *Client) Abort() {
	c.cancelMu.Lock()
	for _, cancel := range c.cancels {
		cancel()
	}
	c.cancelMu.Unlock()
}

// CloseIdle drops idle connections
func (c *Client) CloseIdle() { c.HC.CloseIdleConnections() }

// Do performs the request; call event before sending, return event after the body is read
func (c *Client) Do(rq Req) *Result {
	res := &Result{Req: rq, Age: -1}
	res.ReqID = c.Pfx + strconv.FormatInt(c.next.Add(1), 10)
	if rq.Method == "" {
		rq.Method = "GET"
		res.Req.Method = "GET"
	}
	// a body-less request gets an (empty) body of a type net/http cannot rewind: it goes out
	// byte-identical, but the transport never silently re-sends it after a connection error
	var body io.Reader = emptyBody{}
	if rq.Body != nil {
		body = bytes.NewReader(rq.Body)
		if rq.Chunked {
			body = struct{ io.Reader }{bytes.NewReader(rq.Body)}
		}
	}
	timeout := rq.Timeout
	if timeout == 0 {
		timeout = 30 * time.Second
	}
	ctx, cancel := context.WithTimeout(context.Background(), timeout)
	defer cancel()
	cid := c.next.Add(1)
	c.cancelMu.Lock()
	if c.cancels == nil {
		c.cancels = map[int64]context.CancelFunc{}
	}
	c.cancels[cid] = cancel
	c.cancelMu.Unlock()
	defer func() {
		c.cancelMu.Lock()
		delete(c.cancels, cid)
		c.cancelMu.Unlock()
	}()
	hreq, err := http.NewRequestWithContext(ctx, rq.Method, "http://"+rq.Addr+"/", body)
	if err != nil {
		res.Err = err
		return res
	}
	// send the request-URI verbatim (RawPath keeps the escaping as given)
	pu, perr := url.ParseRequestURI(rq.URI)
	if perr != nil {
		res.Err = perr
		return res
	}
	hreq.URL.Path = pu.Path
	hreq.URL.RawPath = pu.RawPath
	hreq.URL.RawQuery = pu.RawQuery
	hreq.URL.ForceQuery = pu.ForceQuery
	if rq.Host != "" {
		hreq.Host = rq.Host
	}
	for k, vs := range rq.Header {
		for _, v := range vs {
			hreq.Header.Add(k, v)
		}
	}
	hreq.Header.Set("X-Req-Id", res.ReqID)
	if hreq.Header.Get("User-Agent") == "" {
		hreq.Header.Set("User-Agent", "verif-client")
	}
	res.VCall = c.Clock()
	res.CallSeq = Seq()
	resp, err := c.HC.Do(hreq)
	if err != nil {
		res.Err = err
		res.VRet = c.Clock()
		res.RetSeq = Seq()
		return res
	}
	raw, err := io.ReadAll(resp.Body)
	resp.Body.Close()
	res.VRet = c.Clock()
	res.RetSeq = Seq()
	if err != nil {
		res.Err = fmt.Errorf("read body: %w", err)
	}
	res.Status = resp.StatusCode
	res.Header = resp.Header
	res.Raw = raw
	res.CE = resp.Header.Get("Content-Encoding")
	res.CLHeader = resp.Header.Get("Content-Length")
	res.Label = resp.Header.Get("X-Status")
	if a := resp.Header.Get("Age"); a != "" {
		res.AgeRaw = a
		if v, err := strconv.Atoi(a); err == nil {
			res.Age = v
		}
	}
	if x := resp.Header.Get("X-Fetch"); x != "" {
		res.FetchID, _ = strconv.ParseInt(x, 10, 64)
	}
	switch res.CE {
	case "":
		res.Decoded = raw
	case "gzip":
		res.Decoded, res.DecErr = GunzipBytes(raw)
	case "br":
		res.Decoded, res.DecErr = UnbrotliBytes(raw)
	default:
		res.DecErr = fmt.Errorf("unknown content-encoding %q", res.CE)
	}
	if res.DecErr == nil {
		res.Ident, res.HasIdent = ParseIdent(res.Decoded)
	}
	return res
}

type emptyBody struct{}

func (emptyBody) Read([]byte) (int, error) { return 0, io.EOF }

// Get shorthand
func (c *Client) Get(addr, host, uri string, hdr ...string) *Result {
	h := http.Header{}
	for i := 0; i+1 < len(hdr); i += 2 {
		h.Add(hdr[i], hdr[i+1])
	}
	return c.Do(Req{Method: "GET", Addr: addr, Host: host, URI: uri, Header: h})
}

// RawResult what a hand-written request got back
type RawResult struct {
	Err    error
	Status int
	Header http.Header
	Body   []byte
	Proto  string
}

// RawRequest writes the given bytes to addr as they are (any request line, protocol version or byte in the
// target that net/http's client would refuse to send) and parses one response. closeAtOnce: write, then
// close without reading anything (a client that goes away).
func RawRequest(addr string, raw []byte, method string, closeAtOnce bool, timeout time.Duration) *RawResult {
	res := &RawResult{}
	conn, err := net.DialTimeout("tcp", addr, 5*time.Second)
	if err != nil {
		res.Err = err
		return res
	}
	defer conn.Close()
	conn.SetDeadline(time.Now().Add(timeout))
	if _, err := conn.Write(raw); err != nil {
		res.Err = err
		return res
	}
	if closeAtOnce {
		return res
	}
	resp, err := http.ReadResponse(bufio.NewReader(conn), &http.Request{Method: method})
	if err != nil {
		res.Err = err
		return res
	}
	defer resp.Body.Close()
	res.Status, res.Header, res.Proto = resp.StatusCode, resp.Header, resp.Proto
	res.Body, res.Err = io.ReadAll(resp.Body)
	return res
}
