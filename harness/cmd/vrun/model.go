package main

import (
	"fmt"
	"net/http"
	"strconv"
	"sync"
	"time"

	"verifh/hx"
)

// ---- scripted answers per key -------------------------------------------------------------

// ans one scripted upstream answer
type ans struct {
	Kind   string `json:"kind"` // cacheable | nocache | nocc | 5xx | abort | hang
	T      int64  `json:"t,omitempty"`
	Age    string `json:"age,omitempty"` // origin's own Age header ("" none)
	Status int    `json:"status,omitempty"`
	Size   int    `json:"size,omitempty"`
	SMax   bool   `json:"s_maxage,omitempty"` // lifetime given as s-maxage (with a contradicting max-age)
	ETag   string `json:"etag,omitempty"`     // the same validator on every version although the body changes
	// DateSkew: the origin's own Date header is this many seconds away from the real clock (a skewed or
	// replaying origin); 0 = the Date Go's server writes. It has no bearing on the lifetime.
	DateSkew int `json:"origin_date_skew_seconds,omitempty"`
}

// lifetime the lifetime the reference expects pike to compute (0 = not storable)
func (a ans) lifetime() int64 {
	if a.Kind != "cacheable" {
		return 0
	}
	l := a.T
	if a.Age != "" {
		v, _ := strconv.ParseInt(a.Age, 10, 64)
		l -= v
	}
	if l < 0 {
		l = 0
	}
	return l
}

// plan answers of one key: answer of the n-th fetch = Seq[min(n,len)-1]
type plan struct {
	mu   sync.Mutex
	Seq  []ans
	Gate func(f *hx.Fetch) <-chan struct{}
}

func (p *plan) at(n int) ans {
	p.mu.Lock()
	defer p.mu.Unlock()
	if len(p.Seq) == 0 {
		return ans{Kind: "cacheable", T: 3600}
	}
	if n > len(p.Seq) {
		n = len(p.Seq)
	}
	return p.Seq[n-1]
}

// plans table URI -> plan used by the farm script
type plans struct{ m sync.Map }

func (ps *plans) set(uri string, p *plan) { ps.m.Store(uri, p) }
func (ps *plans) del(uri string)          { ps.m.Delete(uri) }
func (ps *plans) get(uri string) *plan {
	v, ok := ps.m.Load(uri)
	if !ok {
		return nil
	}
	return v.(*plan)
}

func (ps *plans) script(f *hx.Fetch) *hx.Reply {
	p := ps.get(f.URI)
	if p == nil {
		return &hx.Reply{Status: 200, Header: [][2]string{{"Cache-Control", "max-age=3600"}}, Body: hx.IdentBody(f, 32, "text")}
	}
	a := p.at(f.Nth)
	rep := replyOf(f, a)
	if p.Gate != nil {
		rep.Gate = p.Gate(f)
	}
	return rep
}

func replyOf(f *hx.Fetch, a ans) *hx.Reply {
	size := a.Size
	if size == 0 {
		size = 48
	}
	rep := &hx.Reply{Status: 200, Header: [][2]string{{"Content-Type", "text/plain"}}, Body: hx.IdentBody(f, size, "text")}
	if a.Status != 0 {
		rep.Status = a.Status
	}
	switch a.Kind {
	case "cacheable":
		if a.SMax {
			rep.Header = append(rep.Header, [2]string{"Cache-Control", "max-age=1, s-maxage=" + strconv.FormatInt(a.T, 10)})
		} else {
			rep.Header = append(rep.Header, [2]string{"Cache-Control", "public, max-age=" + strconv.FormatInt(a.T, 10)})
		}
		if a.Age != "" {
			rep.Header = append(rep.Header, [2]string{"Age", a.Age})
		}
		if a.ETag != "" {
			rep.Header = append(rep.Header, [2]string{"ETag", a.ETag})
		}
		if a.DateSkew != 0 {
			rep.Header = append(rep.Header, [2]string{"Date", time.Now().Add(time.Duration(a.DateSkew) * time.Second).UTC().Format(http.TimeFormat)})
		}
	case "nocache":
		rep.Header = append(rep.Header, [2]string{"Cache-Control", "no-cache"})
	case "nocc":
		// no Cache-Control at all
	case "5xx":
		rep.Status = 503
	case "abort":
		rep.Abort = true
	case "truncate":
		rep.Truncate = true
	case "stall":
		rep.Stall = true
	}
	return rep
}

// ---- cache entry reference model ----------------------------------------------------------

const (
	stNone = iota
	stHit
	stHFP
)

// entryModel the reference model of one (cache,key)
type entryModel struct {
	// LenientFresh: a request that goes upstream although the model's entry is still fresh is not a
	// refutation (premature refetches cost upstream requests - single flight, C01 - but do not serve
	// anything stale); the model then simply follows the refetch. Counted in PrematureRefetches.
	LenientFresh       bool
	PrematureRefetches int
	// TolerateStale: an expired entry that is still served (as the old version) is not a refutation for
	// the property using the model (staleness is C04's concern); the model keeps the old entry. Counted.
	TolerateStale bool
	StaleServes   int
	// CheckBodyVersion: the body delivered must be the body of the version named by the headers (the
	// fresh result replaces the old one as a whole)
	CheckBodyVersion bool
	State            int
	Ver              int64 // fetch id of the stored version
	Created          int64
	T                int64
	Until            int64 // hit-for-pass until (inclusive)
	HFP              int64 // configured hit-for-pass seconds
}

func (m *entryModel) normalise(now int64) {
	switch m.State {
	case stHit:
		if now-m.Created > m.T {
			m.State = stNone
		}
	case stHFP:
		if now > m.Until {
			m.State = stNone
		}
	}
}

func (m *entryModel) String() string {
	switch m.State {
	case stHit:
		return fmt.Sprintf("hit{ver=%d created=%d T=%d}", m.Ver, m.Created, m.T)
	case stHFP:
		return fmt.Sprintf("hfp{until=%d}", m.Until)
	}
	return "none"
}

// afterFetch state after the fetcher's upstream answer a (lifetime from the script) at time now
func (m *entryModel) afterFetch(ver int64, a ans, now int64) {
	if l := a.lifetime(); l > 0 && a.Kind == "cacheable" {
		m.State, m.Ver, m.Created, m.T = stHit, ver, now, l
		return
	}
	p := m.HFP
	if p <= 0 {
		p = 300
	}
	m.State, m.Until = stHFP, now+p
}

// burstCheck judges a burst of requests on one key issued while the clock stood at now and the
// system was quiescent before and after. Returns a description of the first refutation or "".
func (m *entryModel) burstCheck(now int64, results []*hx.Result, rawFetches []*hx.Fetch, answerOf func(*hx.Fetch) ans, checkAge bool) (kind, text string) {
	before := *m
	m.normalise(now)
	if m.TolerateStale && before.State == stHit && m.State == stNone && len(rawFetches) == 0 {
		all := len(results) > 0
		for _, res := range results {
			if res.Err != nil || res.Label != "hit" || res.FetchID != before.Ver {
				all = false
			}
		}
		if all {
			stale := m.StaleServes + 1
			*m = before
			m.StaleServes = stale
			return "", ""
		}
	}
	// one logical upstream contact per client request id (a transport-level retry of the same
	// request is not a second contact); the earliest physical contact represents it
	var fetches []*hx.Fetch
	byReq := map[string]*hx.Fetch{}
	for _, f := range rawFetches {
		if _, dup := byReq[f.ReqID]; dup && f.ReqID != "" {
			continue
		}
		byReq[f.ReqID] = f
		fetches = append(fetches, f)
	}
	// a request may fail (no label, error status or broken connection) only if its own upstream contact failed
	failedOK := func(res *hx.Result) bool {
		f := byReq[res.ReqID]
		return f != nil && failingKind(answerOf(f).Kind)
	}
	isFailed := func(res *hx.Result) bool { return res.Label == "" && (res.Err != nil || res.Status >= 400) }
	for _, res := range results {
		if isFailed(res) && !failedOK(res) {
			if res.Err != nil {
				return "request_failed", "request did not complete: " + res.Err.Error()
			}
			return "request_failed", fmt.Sprintf("error status %d although its upstream contact did not fail (answer: %.200q)", res.Status, res.Raw)
		}
	}
	if m.CheckBodyVersion {
		for _, res := range results {
			if res.Err == nil && res.Status == 200 && res.Req.Method != "HEAD" && res.HasIdent && (res.Ident.FetchID != res.FetchID || !res.Ident.Intact) {
				return "body_of_another_version", fmt.Sprintf("headers belong to fetch %d but the body delivered is that of fetch %d (intact=%v)", res.FetchID, res.Ident.FetchID, res.Ident.Intact)
			}
		}
	}
	switch m.State {
	case stHit:
		if len(fetches) != 0 && m.LenientFresh {
			// follow the refetch: judge the burst as if the entry had been dropped just before it
			m.PrematureRefetches++
			m.State = stNone
			return m.burstCheck(now, results, rawFetches, answerOf, checkAge)
		}
		if len(fetches) != 0 {
			return "fresh_entry_refetched", fmt.Sprintf("model %s at now=%d but %d upstream contacts", m, now, len(fetches))
		}
		for _, res := range results {
			if res.Label != "hit" || res.FetchID != m.Ver {
				return "fresh_entry_not_hit", fmt.Sprintf("model %s at now=%d but label=%s fetch=%d", m, now, res.Label, res.FetchID)
			}
			if checkAge {
				want := int(now - m.Created)
				got := res.Age
				if got < 0 {
					got = 0
				}
				if got != want {
					return "age_wrong", fmt.Sprintf("model %s at now=%d: Age=%d expected %d", m, now, got, want)
				}
				if int64(got) > m.T {
					return "age_exceeds_T", fmt.Sprintf("Age=%d > T=%d", got, m.T)
				}
			}
		}
		return "", ""
	case stHFP:
		if len(fetches) != len(results) {
			return "hfp_contacts_mismatch", fmt.Sprintf("model %s at now=%d: %d requests but %d upstream contacts", m, now, len(results), len(fetches))
		}
		for _, res := range results {
			if isFailed(res) {
				continue
			}
			if res.Label != "hitForPass" {
				return "hfp_label", fmt.Sprintf("model %s at now=%d but label=%s", m, now, res.Label)
			}
		}
		return "", ""
	}
	// none: exactly one fetcher = the request behind the earliest upstream contact
	if len(fetches) == 0 {
		return "stale_served", fmt.Sprintf("model none at now=%d (was %s) but nothing went to the upstream; labels=%v", now, m, labelsOf(results))
	}
	ff := fetches[0]
	for _, f := range fetches {
		if f.StartSeq < ff.StartSeq {
			ff = f
		}
	}
	var fetcher *hx.Result
	nFetching := 0
	for _, res := range results {
		if res.ReqID == ff.ReqID {
			fetcher = res
		}
		if res.Label == "fetching" {
			nFetching++
		}
	}
	if fetcher == nil {
		return "fetcher_without_contact", "the earliest upstream contact belongs to no request of the burst"
	}
	if nFetching > 1 {
		return "two_fetchers", fmt.Sprintf("model none at now=%d: %d requests labelled fetching", now, nFetching)
	}
	if nFetching == 1 && fetcher.Label != "fetching" {
		return "fetcher_label", fmt.Sprintf("the first upstream contact belongs to a request labelled %q while another one is labelled fetching", fetcher.Label)
	}
	if nFetching == 0 && !isFailed(fetcher) {
		return "fetcher_label", fmt.Sprintf("model none at now=%d: the fetcher is labelled %q", now, fetcher.Label)
	}
	a := answerOf(ff)
	m.afterFetch(ff.ID, a, now)
	others := 0
	for _, res := range results {
		if res == fetcher {
			continue
		}
		others++
		switch m.State {
		case stHit:
			if res.Label != "hit" || res.FetchID != m.Ver {
				return "waiter_not_served_from_fetch", fmt.Sprintf("after fetch %d (cacheable): label=%s fetch=%d", m.Ver, res.Label, res.FetchID)
			}
		case stHFP:
			if isFailed(res) {
				continue
			}
			if res.Label != "hitForPass" {
				return "waiter_label_after_uncacheable", fmt.Sprintf("after an uncacheable fetch: label=%s", res.Label)
			}
		}
	}
	wantContacts := 1
	if m.State == stHFP {
		wantContacts = 1 + others
	}
	if len(fetches) != wantContacts {
		return "contacts_mismatch", fmt.Sprintf("expected %d upstream contacts in this burst, saw %d", wantContacts, len(fetches))
	}
	return "", ""
}

func failingKind(k string) bool {
	return k == "abort" || k == "truncate" || k == "hang" || k == "stall"
}

func labelsOf(results []*hx.Result) []string {
	out := make([]string, len(results))
	for i, r := range results {
		out[i] = fmt.Sprintf("%s/%d", r.Label, r.FetchID)
	}
	return out
}

func briefs(results []*hx.Result) []interface{} {
	out := make([]interface{}, 0, len(results))
	for _, r := range results {
		out = append(out, r.Brief())
	}
	return out
}

// burst issues n concurrent identical requests and waits for all of them
func burst(w *W, n int, rq hx.Req) []*hx.Result {
	out := make([]*hx.Result, n)
	var wg sync.WaitGroup
	for i := 0; i < n; i++ {
		wg.Add(1)
		go func(i int) {
			defer wg.Done()
			q := rq
			q.Proc = i
			out[i] = w.Cl.Do(q)
		}(i)
	}
	wg.Wait()
	return out
}
