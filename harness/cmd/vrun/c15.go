package main

import (
	"bufio"
	"bytes"
	"fmt"
	"hash/fnv"
	"io"
	"math/rand"
	"net"
	"net/http"
	"net/url"
	"sort"
	"strings"
	"time"

	"github.com/vicanso/pike/config"
	"verifh/hx"
)

// C15: requests and responses cross the proxy with only the configured changes.

type c15Loc struct {
	Prefix    string
	Rewrite   string
	ReqHdr    [][2]string
	RespHdr   [][2]string
	Query     [][2]string
	AE        string
	H2C       bool
	rewriteFn func(path string) string
}

var c15ModTime = time.Date(2020, 5, 17, 10, 0, 0, 0, time.UTC)

func c15Locations() []c15Loc {
	return []c15Loc{
		{Prefix: "/plain/"},
		{Prefix: "/api/", Rewrite: "/api/*:/$1", rewriteFn: func(p string) string { return "/" + strings.TrimPrefix(p, "/api/") }},
		{Prefix: "/rest/", Rewrite: "/rest/*/user/*:/$1/$2", rewriteFn: func(p string) string {
			rest := strings.TrimPrefix(p, "/rest/")
			i := strings.LastIndex(rest, "/user/")
			return "/" + rest[:i] + "/" + rest[i+len("/user/"):]
		}},
		{Prefix: "/swap/", Rewrite: "/swap/old:/swap/new", rewriteFn: func(p string) string {
			if strings.Contains(p, "/swap/old") {
				return "/swap/new"
			}
			return p
		}},
		// two rules: every rule is applied in turn to the result of the previous one (nginx-like, no "break")
		{Prefix: "/chain/", Rewrite: "/chain/*:/$1;/v1/*:/v2/$1", rewriteFn: func(p string) string {
			p = "/" + strings.TrimPrefix(p, "/chain/")
			if i := strings.Index(p, "/v1/"); i >= 0 {
				p = "/v2/" + p[i+len("/v1/"):]
			}
			return p
		}},
		{Prefix: "/hdr/", ReqHdr: [][2]string{{"X-Added-Req", "r1"}, {"X-Multi", "added"}}, RespHdr: [][2]string{{"X-Added-Resp", "p1"}, {"X-Resp-Multi", "added"}}},
		{Prefix: "/qs/", Query: [][2]string{{"added", "1"}, {"k", "extra"}}},
		{Prefix: "/ae/", AE: "gzip"},
		// the same origin reached over HTTP/2 without TLS (upstream option enableH2C)
		{Prefix: "/h2c/", H2C: true},
	}
}

type c15Case struct {
	URI       string      `json:"uri"`
	Method    string      `json:"method"`
	BodyLen   int         `json:"body_len"`
	Header    [][2]string `json:"header"`
	Cacheable bool        `json:"cacheable"`
	Cond      string      `json:"conditional"` // "", inm_match, inm_nomatch, ims_match, ims_nomatch, range_first, range_suffix, range_multi, if_range
	State     string      `json:"key_state"`   // cold | hit | hfp
	Loc       string      `json:"location"`
	UpStatus  int         `json:"upstream_status,omitempty"` // pass-through methods: what the upstream answers
}

func c15ETag(uri string) string {
	h := fnv.New32a()
	h.Write([]byte(uri))
	return fmt.Sprintf(`"e%x"`, h.Sum32())
}

func c15Body(uri string) []byte {
	h := fnv.New64a()
	h.Write([]byte(uri))
	return hx.PRNGBytes(int64(h.Sum64()&0x7fffffff), 3000, "text")
}

func c15Gen(rnd *rand.Rand, i int, locs []c15Loc) (c15Case, c15Loc) {
	l := locs[rnd.Intn(len(locs))]
	c := c15Case{Loc: l.Prefix}
	seg := func() string {
		return []string{"a", "users", "v1", "x-y_z", "item42", "Q"}[rnd.Intn(6)]
	}
	path := l.Prefix
	switch l.Prefix {
	case "/rest/":
		path += seg() + "/user/" + seg() + fmt.Sprintf("/%d", i)
	case "/swap/":
		if rnd.Intn(2) == 0 {
			path += "old"
		} else {
			path += "other/" + fmt.Sprint(i)
			if rnd.Intn(2) == 0 {
				// escapes in a path that no rule of the location touches stay as the client sent them
				path += []string{"/a%2Fb", "/sp%20ace", "/%41.txt", "/caf%C3%A9", "/semi;colon=1"}[rnd.Intn(5)]
			}
		}
	case "/plain/", "/hdr/", "/ae/", "/h2c/":
		path += seg() + fmt.Sprintf("/%d", i)
		if rnd.Intn(3) == 0 {
			path += []string{"/a%2Fb", "/sp%20ace", "/plus+sign", "/caf%C3%A9", "/semi;colon=1"}[rnd.Intn(5)]
		}
	default:
		path += seg() + "/" + seg() + fmt.Sprintf("/%d", i)
	}
	q := ""
	switch rnd.Intn(6) {
	case 0:
	case 1:
		q = fmt.Sprintf("id=%d", i)
	case 2:
		q = fmt.Sprintf("k=v1&k=v2&z=%d&a=1", i)
	case 3:
		q = fmt.Sprintf("q=a%%20b&r=c%%2Fd&s=e+f&n=%d", i)
	case 4:
		q = fmt.Sprintf("flag&empty=&n=%d", i)
	case 5:
		q = fmt.Sprintf("b=2&a=1&b=1&n=%d", i)
	}
	if l.Prefix == "/swap/" && strings.HasSuffix(path, "old") {
		q = fmt.Sprintf("n=%d", i)
	}
	c.URI = path
	if q != "" {
		c.URI += "?" + q
	}
	c.Method = []string{"GET", "GET", "GET", "GET", "HEAD", "POST", "PUT", "DELETE", "PATCH"}[rnd.Intn(9)]
	if c.Method == "POST" || c.Method == "PUT" || c.Method == "PATCH" {
		c.BodyLen = []int{0, 1, 100, 5000, 1 << 20}[rnd.Intn(5)]
	}
	if c.Method == "GET" && rnd.Intn(5) == 0 {
		c.BodyLen = 100 // a GET may carry a body; it is the client's request like any other part of it
	}
	if c.Method != "GET" && c.Method != "HEAD" {
		c.UpStatus = []int{200, 200, 201, 404, 500, 503}[rnd.Intn(6)]
	}
	c.Header = [][2]string{{"X-Custom", "one"}, {"X-Custom", "two"}, {"Authorization", "Bearer tok" + fmt.Sprint(i)}, {"Cookie", "a=1; b=2"}}
	if rnd.Intn(2) == 0 {
		c.Header = append(c.Header, [2]string{"x-lower-case", "v"}, [2]string{"X-Multi", "client"}, [2]string{"Accept-Language", "de, en;q=0.5"})
	}
	if rnd.Intn(2) == 0 {
		c.Header = append(c.Header, [2]string{"Accept-Encoding", []string{"gzip", "br", "gzip, br", "identity"}[rnd.Intn(4)]})
	}
	c.Cacheable = rnd.Intn(3) != 0
	c.State = "cold"
	if c.Method == "GET" || c.Method == "HEAD" {
		c.State = []string{"cold", "cold", "hit", "hfp", "hfp_flip"}[rnd.Intn(5)]
		if c.State == "hit" {
			c.Cacheable = true
		}
		if c.State == "hfp" || c.State == "hfp_flip" {
			c.Cacheable = false
		}
		c.Cond = []string{"", "", "inm_match", "inm_nomatch", "ims_match", "ims_nomatch", "range_first", "range_suffix", "range_multi", "if_range", "both_match", "inm_nomatch_ims_match"}[rnd.Intn(12)]
	}
	return c, l
}

func c15CondHeaders(c c15Case) [][2]string {
	et := c15ETag(c.URI)
	lm := c15ModTime.Format(http.TimeFormat)
	switch c.Cond {
	case "inm_match":
		return [][2]string{{"If-None-Match", et}}
	case "inm_nomatch":
		return [][2]string{{"If-None-Match", `"other"`}}
	case "ims_match":
		return [][2]string{{"If-Modified-Since", lm}}
	case "ims_nomatch":
		return [][2]string{{"If-Modified-Since", c15ModTime.Add(-time.Hour).Format(http.TimeFormat)}}
	case "both_match":
		return [][2]string{{"If-None-Match", et}, {"If-Modified-Since", lm}}
	case "inm_nomatch_ims_match":
		// If-None-Match takes precedence: the entity tag differs, so the full response is due
		return [][2]string{{"If-None-Match", `"other"`}, {"If-Modified-Since", lm}}
	case "range_first":
		return [][2]string{{"Range", "bytes=0-99"}}
	case "range_suffix":
		return [][2]string{{"Range", "bytes=-50"}}
	case "range_multi":
		return [][2]string{{"Range", "bytes=0-9,100-109"}}
	case "if_range":
		return [][2]string{{"Range", "bytes=10-19"}, {"If-Range", et}}
	}
	return nil
}

func c15CheckForward(r *hx.Run, c c15Case, l c15Loc, f *hx.Fetch, res *hx.Result, sent http.Header, body []byte, status string) bool {
	if strings.HasPrefix(f.Proto, "HTTP/2") {
		r.Add("upstream_requests_seen_over_http2", 1)
		if !l.H2C {
			r.Violate("upstream_protocol", map[string]string{"location": l.Prefix}, "request reached the origin over HTTP/2 although the upstream is not configured for h2c", nil, c)
			return false
		}
	} else if l.H2C {
		r.Violate("upstream_protocol", map[string]string{"location": l.Prefix}, "upstream configured with enableH2C was contacted over "+f.Proto, nil, c)
		return false
	}
	cs := map[string]interface{}{"case": c, "request_status_label": status}
	fail := func(kind, text string) bool {
		r.Violate(kind, map[string]string{"location": l.Prefix}, text, map[string]interface{}{"origin_saw": map[string]interface{}{"method": f.Method, "uri": f.URI, "header": f.Header, "body_len": len(f.Body)}, "client": res.Brief()}, cs)
		return false
	}
	if f.Method != c.Method {
		return fail("method_changed", fmt.Sprintf("upstream saw %s for %s", f.Method, c.Method))
	}
	if !bytes.Equal(f.Body, body) {
		return fail("request_body_changed", fmt.Sprintf("upstream saw %d body bytes (sha %s), client sent %d (sha %s)", len(f.Body), hx.Sha(f.Body), len(body), hx.Sha(body)))
	}
	// path and query
	cu, _ := url.ParseRequestURI(c.URI)
	fu, err := url.ParseRequestURI(f.URI)
	if err != nil {
		return fail("uri_unparsable_upstream", "upstream URI unparsable: "+f.URI)
	}
	wantPath := cu.EscapedPath()
	if l.rewriteFn != nil {
		if p := l.rewriteFn(cu.Path); p != cu.Path {
			wantPath = p
		} else if wantPath != cu.Path {
			r.Add("escaped_paths_untouched_by_the_rewrite_rules", 1)
		}
	}
	if fu.EscapedPath() != wantPath {
		return fail("path_differs", fmt.Sprintf("upstream path %q, expected %q", fu.EscapedPath(), wantPath))
	}
	if len(l.Query) == 0 {
		if fu.RawQuery != cu.RawQuery {
			return fail("query_changed", fmt.Sprintf("upstream query %q, client sent %q", fu.RawQuery, cu.RawQuery))
		}
	} else {
		want := cu.Query()
		for _, kv := range l.Query {
			want.Add(kv[0], kv[1])
		}
		got := fu.Query()
		if fmt.Sprint(sortedValues(want)) != fmt.Sprint(sortedValues(got)) {
			return fail("query_differs", fmt.Sprintf("upstream query %v, expected %v", sortedValues(got), sortedValues(want)))
		}
	}
	// headers
	want := http.Header{}
	for k, vs := range sent {
		want[http.CanonicalHeaderKey(k)] = append(want[http.CanonicalHeaderKey(k)], vs...)
	}
	for _, kv := range l.ReqHdr {
		want.Add(kv[0], kv[1])
	}
	skip := map[string]bool{"X-Forwarded-For": true, "User-Agent": true, "Accept-Encoding": true, "Content-Length": true, "X-Req-Id": true, "Connection": true, "Te": true}
	cond := map[string]bool{"If-None-Match": true, "If-Modified-Since": true}
	rangeHdr := map[string]bool{"Range": true, "If-Range": true}
	for k, vs := range want {
		if skip[k] {
			continue
		}
		if cond[k] {
			switch status {
			case "fetching":
				if c.Cacheable && len(f.Header[k]) != 0 {
					return fail("conditional_header_reached_upstream_on_cold_fetch", k+" was forwarded on a cold cacheable fetch")
				}
				continue
			case "hitForPass", "passed":
				// must be forwarded
			default:
				continue
			}
		}
		if rangeHdr[k] && status == "fetching" {
			continue // judged through what other clients receive
		}
		if fmt.Sprint(f.Header[k]) != fmt.Sprint(vs) {
			return fail("request_header_changed", fmt.Sprintf("header %s: upstream saw %v, expected %v", k, f.Header[k], vs))
		}
	}
	if l.AE != "" {
		if fmt.Sprint(f.Header["Accept-Encoding"]) != fmt.Sprint([]string{l.AE}) {
			return fail("upstream_accept_encoding", fmt.Sprintf("upstream Accept-Encoding %v, configured %q", f.Header["Accept-Encoding"], l.AE))
		}
	} else if ae := sent.Get("Accept-Encoding"); ae != "" {
		if fmt.Sprint(f.Header["Accept-Encoding"]) != fmt.Sprint([]string{ae}) {
			return fail("request_header_changed", fmt.Sprintf("Accept-Encoding: upstream saw %v, client sent %q", f.Header["Accept-Encoding"], ae))
		}
	}
	return true
}

func sortedValues(v url.Values) []string {
	var out []string
	for k, vs := range v {
		out = append(out, k+"="+strings.Join(vs, "|"))
	}
	sort.Strings(out)
	return out
}

func c15(r *hx.Run) {
	r.Rule = "generated cases on nine locations (one reaching the origin over h2c, no change, the two documented rewrite forms, a literal swap, a two-rule rewrite chain, added request+response headers, added query parameters, upstream Accept-Encoding override): methods GET/HEAD/POST/PUT/DELETE/PATCH, bodies 0..1 MiB (also on GET), upstream statuses 200/201/404/500/503 on the pass-through methods, multi-valued/lower-case/credential headers, queries with repeated keys, escapes and value-less parameters, escaped paths (also on a location whose rewrite rule does not apply to them); conditional (matching/non-matching ETag and Last-Modified) and Range (first bytes, suffix, multi, If-Range) headers on cold, hit and hit-for-pass keys against an origin built on http.ServeContent; client A's request is followed by a plain client B; beside all this an upstream that takes 11 s to answer and a client that takes 11 s to send its body (no timeout configured). Compared: what the origin logged vs the reference transformation, the client's response vs origin response + configured headers (ETag and Last-Modified byte for byte, whatever the encoding), B never receives 304/206/partial. Non-trivial/distinct = (location, method, conditional kind, key state, cacheable)."
	r.Assume = []string{"malformed queries, If-Match/412, X-Forwarded-For, User-Agent and the upstream Accept-Encoding when the client sent none (Go's transport adds gzip itself) are not judged", "conditional headers on a cold uncacheable fetch are not judged (pike cannot know cacheability beforehand)", "304 for a conditional HEAD is not demanded (the fresh middleware skips body-less responses; 200 is a correct answer)"}
	rnd := rand.New(rand.NewSource(r.Seed))
	locs := c15Locations()
	port := hx.FreePorts(1)[0]
	w := newWorldCfg(r, 1, true, func(origins []string) *config.PikeConfig {
		cfg := &config.PikeConfig{
			Caches: []config.CacheConfig{{Name: "c15", Size: 100000, HitForPass: "5m"}},
			Upstreams: []config.UpstreamConfig{{Name: "u", Servers: []config.UpstreamServerConfig{{Addr: origins[0]}}}, {Name: "uae", AcceptEncoding: "gzip", Servers: []config.UpstreamServerConfig{{Addr: origins[0]}}},
				{Name: "uh2c", EnableH2C: true, HealthCheck: "/ping", Servers: []config.UpstreamServerConfig{{Addr: origins[0]}}}},
		}
		var names []string
		for i, l := range locs {
			lc := config.LocationConfig{Name: fmt.Sprintf("l%d", i), Upstream: "u", Prefixes: []string{l.Prefix}}
			if l.AE != "" {
				lc.Upstream = "uae"
			}
			if l.H2C {
				lc.Upstream = "uh2c"
			}
			if l.Rewrite != "" {
				lc.Rewrites = strings.Split(l.Rewrite, ";")
			}
			for _, kv := range l.ReqHdr {
				lc.ReqHeaders = append(lc.ReqHeaders, kv[0]+":"+kv[1])
			}
			for _, kv := range l.RespHdr {
				lc.RespHeaders = append(lc.RespHeaders, kv[0]+":"+kv[1])
			}
			for _, kv := range l.Query {
				lc.QueryStrings = append(lc.QueryStrings, kv[0]+":"+kv[1])
			}
			cfg.Locations = append(cfg.Locations, lc)
			names = append(names, lc.Name)
		}
		cfg.Servers = []config.ServerConfig{{Addr: srvAddr(port), Locations: names, Cache: "c15", LogFormat: "{remote} {when-iso} {:proxyTarget} {method} {uri} {proto} {status} {<x-status} {size-human} {referer} {userAgent} {>x-req-id} {~sid}"}}
		return cfg
	})
	defer w.Farm.Close()
	var cur c15Case
	w.Farm.SetScript(func(f *hx.Fetch) *hx.Reply {
		if strings.HasPrefix(f.URI, "/plain/slow-download") {
			return &hx.Reply{Status: 200, Header: [][2]string{{"Cache-Control", "no-store"}}, Body: []byte("slow-ok"), Delay: 11 * time.Second}
		}
		if strings.HasPrefix(f.URI, "/plain/slow-upload") {
			return &hx.Reply{Status: 200, Header: [][2]string{{"Cache-Control", "no-store"}}, Body: []byte(fmt.Sprintf("got %d bytes", len(f.Body)))}
		}
		c := cur
		cc := "max-age=600"
		if !c.Cacheable {
			cc = "no-cache"
		}
		h := [][2]string{{"Cache-Control", cc}, {"Content-Type", "text/plain"}, {"X-Origin-Multi", "o1"}, {"X-Origin-Multi", "o2"}, {"X-Resp-Multi", "origin"}}
		if f.Method != "GET" && f.Method != "HEAD" {
			return &hx.Reply{Status: c.UpStatus, Header: h, Body: []byte("ack " + f.Method)}
		}
		return &hx.Reply{ServeContent: true, ETag: c15ETag(c.URI), ModTime: c15ModTime, Header: h, Body: c15Body(c.URI)}
	})
	// two slow exchanges run beside everything else: an upstream that takes 11 s to answer, and a client
	// that takes 11 s to send its body. No timeout is configured, so both must get through unchanged.
	slowDone := make(chan [2]string, 2)
	go func() {
		res := hx.NewClient(nil).Do(hx.Req{Addr: w.Addr, Host: "c15.example", URI: "/plain/slow-download", Timeout: 40 * time.Second})
		if res.Err != nil || res.Status != 200 || string(res.Raw) != "slow-ok" {
			slowDone <- [2]string{"slow_download", fmt.Sprintf("an upstream answering after 11 s: status %d err %v body %.40q", res.Status, res.Err, res.Raw)}
			return
		}
		slowDone <- [2]string{"", ""}
	}()
	go func() {
		conn, err := net.DialTimeout("tcp", w.Addr, 5*time.Second)
		if err != nil {
			slowDone <- [2]string{"", ""}
			return
		}
		defer conn.Close()
		conn.SetDeadline(time.Now().Add(40 * time.Second))
		fmt.Fprintf(conn, "POST /plain/slow-upload HTTP/1.1\r\nHost: c15.example\r\nContent-Length: 12\r\n\r\npart1-")
		time.Sleep(11 * time.Second)
		fmt.Fprintf(conn, "part2!")
		resp, err := http.ReadResponse(bufio.NewReader(conn), nil)
		if err != nil {
			slowDone <- [2]string{"slow_upload", "a request body sent over 11 s: " + err.Error()}
			return
		}
		body, _ := io.ReadAll(resp.Body)
		resp.Body.Close()
		if resp.StatusCode != 200 || string(body) != "got 12 bytes" {
			slowDone <- [2]string{"slow_upload", fmt.Sprintf("a request body sent over 11 s: status %d, upstream answered %.40q", resp.StatusCode, body)}
			return
		}
		slowDone <- [2]string{"", ""}
	}()
	defer func() {
		for k := 0; k < 2; k++ {
			select {
			case v := <-slowDone:
				r.Add("slow_exchanges_completed", 1)
				if v[0] != "" {
					r.Violate("slow_exchange_cut", map[string]string{"which": v[0]}, v[1], nil, nil)
				}
			case <-time.After(60 * time.Second):
				r.InconclusiveCase("C15: a slow exchange did not finish within 60 s")
			}
		}
	}()
	n := r.Pick(1200, 150000)
	for i := 0; i < n && !r.TooMany(); i++ {
		c, l := c15Gen(rnd, i, locs)
		cur = c
		full := c15Body(c.URI)
		plain := func(method string) *hx.Result {
			return w.Cl.Do(hx.Req{Method: method, Addr: w.Addr, Host: "c15.example", URI: c.URI})
		}
		// bring the key into the wanted state with plain requests
		if c.State != "cold" {
			pre := plain(c.Method)
			if pre.Err != nil || pre.Status != 200 {
				r.Violate("warmup_failed", nil, "plain request failed", pre.Brief(), c)
				continue
			}
		}
		if c.State == "hfp_flip" {
			// the key is in its hit-for-pass period; from now on the upstream marks the resource cacheable
			c.Cacheable = true
			c.State = "hfp"
			cur = c
			r.Add("hit_for_pass_keys_whose_upstream_turned_cacheable", 1)
		}
		sent := http.Header{}
		for _, kv := range c.Header {
			sent[kv[0]] = append(sent[kv[0]], kv[1])
		}
		for _, kv := range c15CondHeaders(c) {
			sent[kv[0]] = append(sent[kv[0]], kv[1])
		}
		var body []byte
		if c.BodyLen > 0 || c.Method == "POST" || c.Method == "PUT" || c.Method == "PATCH" {
			body = hx.PRNGBytes(int64(i), c.BodyLen, "rand")
			if body == nil {
				body = []byte{}
			}
		}
		before := w.Farm.LogLen()
		chunked := len(body) > 0 && i%2 == 0
		if chunked {
			r.Add("chunked_request_bodies", 1)
		}
		resA := w.Cl.Do(hx.Req{Method: c.Method, Addr: w.Addr, Host: "c15.example", URI: c.URI, Header: sent, Body: body, Chunked: chunked})
		var fetches []*hx.Fetch
		for _, f := range w.Farm.LogSince(before) {
			if !strings.HasPrefix(f.URI, "/plain/slow-") { // the slow exchanges running beside the cases
				fetches = append(fetches, f)
			}
		}
		r.Eval(1)
		cs := map[string]interface{}{"case": c}
		if resA.Err != nil {
			r.Violate("request_failed", nil, "request failed: "+resA.Err.Error(), resA.Brief(), cs)
			continue
		}
		label := resA.Label
		if label == "" && c.State == "cold" && resA.Status == 304 {
			label = "fetching"
		}
		wantContacts := 1
		if c.State == "hit" {
			wantContacts = 0
		}
		if len(fetches) != wantContacts {
			r.Violate("upstream_contacts", map[string]string{"state": c.State}, fmt.Sprintf("%d upstream contacts for a key in state %s", len(fetches), c.State), resA.Brief(), cs)
			continue
		}
		statusForFwd := map[string]string{"cold": "fetching", "hfp": "hitForPass"}[c.State]
		if c.Method != "GET" && c.Method != "HEAD" {
			statusForFwd = "passed"
		}
		if len(fetches) == 1 {
			if body == nil {
				body = []byte{}
			}
			if !c15CheckForward(r, c, l, fetches[0], resA, sent, body, statusForFwd) {
				continue
			}
			r.Add("forwarded_requests_compared", 1)
		}
		// the response to A
		isCond := strings.HasPrefix(c.Cond, "inm") || strings.HasPrefix(c.Cond, "ims") || c.Cond == "both_match"
		if c.Cond == "inm_nomatch_ims_match" {
			r.Add("etag_mismatch_with_matching_last_modified", 1)
		}
		isRange := strings.HasPrefix(c.Cond, "range") || c.Cond == "if_range"
		match := c.Cond == "inm_match" || c.Cond == "ims_match" || c.Cond == "both_match"
		switch {
		case c.Method != "GET" && c.Method != "HEAD":
			if resA.Status != c.UpStatus || string(resA.Decoded) != "ack "+c.Method {
				r.Violate("response_changed", nil, "pass-through response altered", resA.Brief(), cs)
				continue
			}
		case isCond && match && c.Method == "HEAD":
			// elton's fresh middleware skips responses without a body: 200 or 304 are both right for HEAD
			if resA.Status != 304 && resA.Status != 200 {
				r.Violate("response_changed", map[string]string{"state": c.State}, fmt.Sprintf("status %d for a conditional HEAD", resA.Status), resA.Brief(), cs)
				continue
			}
		case isCond && match:
			if resA.Status != 304 {
				r.Violate("no_304_for_matching_validators", map[string]string{"state": c.State}, fmt.Sprintf("client validators match but status %d", resA.Status), resA.Brief(), cs)
				continue
			}
			r.Add("conditional_304_seen", 1)
		case isRange:
			okFull := resA.Status == 200 && (c.Method == "HEAD" || bytes.Equal(resA.Decoded, full))
			okPartial := resA.Status == 206
			if !okFull && !okPartial {
				r.Violate("range_response_wrong", map[string]string{"state": c.State}, fmt.Sprintf("status %d for a Range request", resA.Status), resA.Brief(), cs)
				continue
			}
		default:
			if resA.Status != 200 || (c.Method == "GET" && !bytes.Equal(resA.Decoded, full)) {
				r.Violate("response_changed", map[string]string{"state": c.State}, fmt.Sprintf("status %d / body differs for a plain or non-matching conditional request", resA.Status), resA.Brief(), cs)
				continue
			}
		}
		// response headers = origin's + configured
		if resA.Status == 200 || resA.Status == 206 || (c.Method != "GET" && c.Method != "HEAD") {
			if resA.Status >= 400 {
				r.Add("upstream_error_statuses_passed_through", 1)
			}
			if c.Method == "GET" || c.Method == "HEAD" {
				// the validators are the origin's own, byte for byte - whatever encoding the client is given
				if et, lm := resA.Header.Get("Etag"), resA.Header.Get("Last-Modified"); et != c15ETag(c.URI) || lm != c15ModTime.Format(http.TimeFormat) {
					r.Violate("response_header_changed", map[string]string{"header": "validators"}, fmt.Sprintf("ETag %q Last-Modified %q, the origin sent %q and %q (Content-Encoding %q)", et, lm, c15ETag(c.URI), c15ModTime.Format(http.TimeFormat), resA.Header.Get("Content-Encoding")), resA.Brief(), cs)
					continue
				}
				r.Add("validators_compared", 1)
			}
			wantMulti := []string{"o1", "o2"}
			if fmt.Sprint(resA.Header["X-Origin-Multi"]) != fmt.Sprint(wantMulti) {
				r.Violate("response_header_changed", nil, fmt.Sprintf("X-Origin-Multi %v", resA.Header["X-Origin-Multi"]), resA.Brief(), cs)
				continue
			}
			wantResp := []string{"origin"}
			for _, kv := range l.RespHdr {
				if kv[0] == "X-Resp-Multi" {
					wantResp = append(wantResp, kv[1])
				} else if fmt.Sprint(resA.Header[kv[0]]) != fmt.Sprint([]string{kv[1]}) {
					r.Violate("configured_response_header", nil, fmt.Sprintf("%s = %v, configured %q", kv[0], resA.Header[kv[0]], kv[1]), resA.Brief(), cs)
				}
			}
			if fmt.Sprint(resA.Header["X-Resp-Multi"]) != fmt.Sprint(wantResp) {
				r.Violate("configured_response_header", nil, fmt.Sprintf("X-Resp-Multi = %v, expected %v", resA.Header["X-Resp-Multi"], wantResp), resA.Brief(), cs)
				continue
			}
		}
		// client B: no conditional, no Range
		if c.Method == "GET" || c.Method == "HEAD" {
			resB := plain(c.Method)
			if resB.Err != nil || resB.Status != 200 || (c.Method == "GET" && !bytes.Equal(resB.Decoded, full)) {
				kind := "other_client_got_conditional_or_partial_answer"
				params := map[string]string{"state": c.State, "provoked_by": "conditional"}
				if isRange {
					params["provoked_by"] = "range"
				}
				r.Violate(kind, params, fmt.Sprintf("client B (no conditional/Range headers) received status %d with %d body bytes after client A's %s request", resB.Status, len(resB.Decoded), c.Cond), map[string]interface{}{"A": resA.Brief(), "B": resB.Brief()}, cs)
				continue
			}
			r.Add("second_client_checks", 1)
		}
		r.Distinct(strings.Join([]string{l.Prefix, c.Method, c.Cond, c.State, fmt.Sprint(c.Cacheable)}, "|"))
		if i%400 == 0 {
			r.Sample(c)
		}
		if i%200 == 0 {
			w.Farm.Trim()
		}
	}
}

func init() { register("C15", "exploration", c15) }
