package main

import (
	"bytes"
	"encoding/binary"
	"encoding/json"
	"fmt"
	"math/rand"
	"os"
	"os/exec"
	"path/filepath"
	"runtime"
	"strconv"
	"strings"
	"sync"
	"time"

	"github.com/vicanso/pike/compress"
	"verifh/hx"
)

// C12: compression codecs are exact inverses for every input and level. Runs in child processes.

type c12Result struct {
	Encoded             map[string]int64 `json:"encoder_round_trips_by_format_level"`
	Decoded             map[string]int64 `json:"reference_streams_decoded_by_format"`
	Independent         int64            `json:"streams_checked_with_independent_tools"`
	MaxRatio            map[string]int   `json:"max_ratio_decoded_by_format"`
	Variants            map[string]int64 `json:"stream_variants"`
	ValidAfterMalformed int64            `json:"valid_streams_decoded_right_after_malformed_ones"`
	DenseSweep          int64            `json:"block_streams_of_every_length_decoded"`
	ConcurrentOps       int64            `json:"concurrent_encode_decode_round_trips"`
	Malformed           map[string]int64 `json:"malformed_by_format"`
	MalRejected         int64            `json:"malformed_rejected"`
	MalAccepted         int64            `json:"malformed_accepted_with_output"`
	GoroutinesB         int              `json:"goroutines_before"`
	GoroutinesA         int              `json:"goroutines_after"`
	Distinct            []string         `json:"distinct"`
	Samples             []interface{}    `json:"samples"`
	Viol                []c09Viol        `json:"violations"`
	hangs               int
	outPath             string
}

func (res *c12Result) add(v c09Viol) {
	n := 0
	for _, x := range res.Viol {
		if x.Kind == v.Kind && fmt.Sprint(x.Params) == fmt.Sprint(v.Params) {
			n++
		}
	}
	if n < 6 {
		res.Viol = append(res.Viol, v)
	}
	// a call that never returns keeps a core busy for good: after three of them the batch ends here with what it has
	if strings.HasSuffix(v.Kind, "_panic_or_hang") && strings.Contains(v.Text, "hung=true") {
		if res.hangs++; res.hangs >= 3 && res.outPath != "" {
			res.Samples = append(res.Samples, "batch ended early: three calls did not return")
			buf, _ := json.Marshal(res)
			os.WriteFile(res.outPath, buf, 0644)
			os.Exit(0)
		}
	}
}

func c12Lengths(rnd *rand.Rand, thorough bool) []int {
	ls := []int{}
	for i := 0; i <= 64; i++ {
		ls = append(ls, i)
	}
	for p := 7; p <= 20; p++ {
		ls = append(ls, 1<<p-1, 1<<p, 1<<p+1)
	}
	for i := 0; i < 20; i++ {
		ls = append(ls, rnd.Intn(70000))
	}
	return ls
}

func withWatchdog(d time.Duration, fn func()) (panicked interface{}, hung bool) {
	done := make(chan interface{}, 1)
	go func() {
		defer func() { done <- recover() }()
		fn()
	}()
	select {
	case p := <-done:
		return p, false
	case <-time.After(d):
		return nil, true
	}
}

func cliDecode(tool string, args []string, in []byte) ([]byte, error) {
	cmd := exec.Command(tool, args...)
	cmd.Stdin = bytes.NewReader(in)
	var out bytes.Buffer
	cmd.Stdout = &out
	err := cmd.Run()
	return out.Bytes(), err
}

func c12Child(args []string) {
	seed, _ := strconv.ParseInt(args[0], 10, 64)
	scale, _ := strconv.Atoi(args[1]) // 1 quick, larger thorough
	out, prog := args[2], args[3]
	hx.QuietPikeLog("")
	rnd := rand.New(rand.NewSource(seed))
	res := &c12Result{Encoded: map[string]int64{}, Decoded: map[string]int64{}, MaxRatio: map[string]int{}, Malformed: map[string]int64{}, Variants: map[string]int64{}}
	res.GoroutinesB = runtime.NumGoroutine()
	res.outPath = out
	pf, _ := os.OpenFile(prog, os.O_CREATE|os.O_RDWR, 0644)
	idx := int64(0)
	mark := func() {
		idx++
		var b [8]byte
		binary.BigEndian.PutUint64(b[:], uint64(idx))
		pf.WriteAt(b[:], 0)
	}
	// outputs of earlier operations are kept and re-verified after later ones: a codec handing out
	// memory it reuses shows up as an earlier result changing
	type kept struct {
		what string
		got  []byte
		want []byte
	}
	var ring []kept
	keep := func(what string, got, want []byte) {
		for _, k := range ring {
			if !bytes.Equal(k.got, k.want) {
				res.add(c09Viol{Kind: "earlier_result_changed_by_later_operation", Params: map[string]string{"what": k.what}, Text: fmt.Sprintf("the %s result of an earlier call (%d bytes) changed after a later %s call", k.what, len(k.want), what)})
			}
		}
		ring = append(ring, kept{what, got, append([]byte{}, want...)})
		if len(ring) > 6 {
			ring = ring[1:]
		}
	}
	kinds := []string{"rand", "text", "runs", "zero"}
	lengths := c12Lengths(rnd, scale > 1)
	// ---- (1) pike's encoders at every level
	for _, level := range []int{-1, 0, 1, 2, 3, 4, 5, 6, 7, 8, 9, 10, 11, 12, 99, -7} {
		srv := compress.NewService()
		srv.SetLevels(map[string]int{"gzip": level, "br": level})
		for li, n := range lengths {
			if (li+level+100)%3 != int(seed%3) && scale == 1 {
				continue // quick: one third of the lengths per level, rotating with the seed
			}
			kind := kinds[rnd.Intn(len(kinds))]
			x := hx.PRNGBytes(rnd.Int63(), n, kind)
			cs := map[string]interface{}{"level": level, "len": n, "kind": kind}
			mark()
			var gz, br []byte
			var e1, e2 error
			if p, hung := withWatchdog(60*time.Second, func() { gz, e1 = srv.Gzip(x); br, e2 = srv.Brotli(x) }); p != nil || hung {
				res.add(c09Viol{Kind: "encoder_panic_or_hang", Params: map[string]string{"level": fmt.Sprint(level)}, Text: fmt.Sprintf("panic=%v hung=%v", p, hung), Case: cs})
				continue
			}
			if e1 != nil || e2 != nil {
				res.add(c09Viol{Kind: "encoder_error", Params: map[string]string{"level": fmt.Sprint(level)}, Text: fmt.Sprintf("gzip err=%v brotli err=%v", e1, e2), Case: cs})
				continue
			}
			for _, t := range []struct {
				name string
				data []byte
				own  func([]byte) ([]byte, error)
				std  func([]byte) ([]byte, error)
			}{{"gzip", gz, srv.Gunzip, hx.GunzipBytes}, {"br", br, srv.BrotliDecode, hx.UnbrotliBytes}} {
				d1, err1 := t.own(t.data)
				d2, err2 := t.std(t.data)
				if err1 == nil && bytes.Equal(d1, x) {
					keep("decode:"+t.name, d1, x)
					keep("encode:"+t.name, t.data, t.data)
				}
				if err1 != nil || err2 != nil || !bytes.Equal(d1, x) || !bytes.Equal(d2, x) {
					res.add(c09Viol{Kind: "encoder_output_not_restored", Params: map[string]string{"format": t.name, "level": fmt.Sprint(level)}, Text: fmt.Sprintf("%s level %d of %d bytes: pike decoder err=%v equal=%v; standard decoder err=%v equal=%v", t.name, level, n, err1, bytes.Equal(d1, x), err2, bytes.Equal(d2, x)), Case: cs})
				}
				res.Encoded[fmt.Sprintf("%s/%d", t.name, level)]++
			}
			// independent tools on a sample
			if rnd.Intn(40) == 0 {
				if o, err := cliDecode("gzip", []string{"-dc"}, gz); err != nil || !bytes.Equal(o, x) {
					res.add(c09Viol{Kind: "encoder_output_not_restored", Params: map[string]string{"format": "gzip", "decoder": "gzip-cli"}, Text: fmt.Sprintf("gzip -dc does not restore pike's gzip output (level %d, %d bytes): %v", level, n, err), Case: cs})
				}
				if o, err := cliDecode("python3", []string{"-c", "import sys,zlib;sys.stdout.buffer.write(zlib.decompress(sys.stdin.buffer.read(),31))"}, gz); err != nil || !bytes.Equal(o, x) {
					res.add(c09Viol{Kind: "encoder_output_not_restored", Params: map[string]string{"format": "gzip", "decoder": "python-zlib"}, Text: fmt.Sprintf("python zlib does not restore pike's gzip output (level %d, %d bytes): %v", level, n, err), Case: cs})
				}
				res.Independent += 2
			}
			res.Distinct = append(res.Distinct, fmt.Sprintf("enc|%d|%d|%s", level, n, kind))
		}
	}
	// ---- (1b) the same encoders and decoders used by many goroutines at once (as concurrent requests do):
	// every result is checked with the standard decoders; a panic in one goroutine is a verdict
	{
		var wg sync.WaitGroup
		var cmu sync.Mutex
		var concurrentOps int64
		for g := 0; g < 16; g++ {
			wg.Add(1)
			go func(g int) {
				defer wg.Done()
				defer func() {
					if p := recover(); p != nil {
						cmu.Lock()
						res.add(c09Viol{Kind: "encoder_panic_or_hang", Params: map[string]string{"mode": "concurrent"}, Text: fmt.Sprintf("panic in a goroutine using the codecs concurrently: %v", p)})
						cmu.Unlock()
					}
				}()
				lr := rand.New(rand.NewSource(seed*100 + int64(g)))
				csrv := compress.NewService()
				csrv.SetLevels(map[string]int{"gzip": []int{6, 9, -1}[g%3], "br": []int{5, 11}[g%2]}) // few levels, shared by many goroutines
				for i := 0; i < 60*scale; i++ {
					x := hx.PRNGBytes(lr.Int63(), []int{0, 10, 700, 5000, 70000}[lr.Intn(5)], kinds[lr.Intn(len(kinds))])
					gz, e1 := csrv.Gzip(x)
					br, e2 := csrv.Brotli(x)
					d1, e3 := hx.GunzipBytes(gz)
					d2, e4 := hx.UnbrotliBytes(br)
					d3, e5 := csrv.Gunzip(gz)
					if e1 != nil || e2 != nil || e3 != nil || e4 != nil || e5 != nil || !bytes.Equal(d1, x) || !bytes.Equal(d2, x) || !bytes.Equal(d3, x) {
						cmu.Lock()
						res.add(c09Viol{Kind: "encoder_output_not_restored", Params: map[string]string{"mode": "concurrent"}, Text: fmt.Sprintf("concurrent use: %d bytes, gzip err=%v/%v/%v brotli err=%v/%v, restored lengths %d %d %d", len(x), e1, e3, e5, e2, e4, len(d1), len(d2), len(d3))})
						cmu.Unlock()
						return
					}
					cmu.Lock()
					concurrentOps++
					cmu.Unlock()
				}
			}(g)
		}
		wg.Wait()
		res.ConcurrentOps = concurrentOps
	}
	// ---- (2) valid streams of all five formats
	srv := compress.NewService()
	formats := []string{"gzip", "br", "lz4", "zst", "snz"}
	zstCount := 0
	for _, n := range append(lengths, 300000, 1<<20) {
		for _, kind := range kinds {
			x := hx.PRNGBytes(rnd.Int63(), n, kind)
			for _, f := range formats {
				if f == "zst" {
					zstCount++
					if zstCount > 2500 {
						continue // every ZSTDDecode leaves 16 goroutines behind (reported below)
					}
				}
				level := 1 + rnd.Intn(9)
				enc, err := hx.Encode(f, x, level)
				if err != nil {
					continue
				}
				if f == "gzip" && rnd.Intn(5) == 0 && n > 10 {
					// multi-member gzip stream
					enc = append(hx.GzipBytes(x[:n/2], level), hx.GzipBytes(x[n/2:], level)...)
				}
				if f == "zst" && rnd.Intn(60) == 0 {
					if o, e := cliDecode("zstd", []string{"-q", "-c", "-" + strconv.Itoa(1+rnd.Intn(19))}, x); e == nil {
						enc = o
						res.Independent++
					}
				}
				variant := ""
				if (f == "gzip" || f == "br" || f == "zst") && rnd.Intn(4) == 0 {
					// the same data in a container written with other encoder settings (header fields, windows, chunked writes)
					if o, d, ok := hx.EncodeVariant(f, x, level, rnd.Intn(1000)); ok {
						enc, variant = o, d
						res.Variants[d]++
					}
				}
				cs := map[string]interface{}{"format": f, "len": n, "kind": kind, "stream_len": len(enc), "level": level, "variant": variant}
				mark()
				var dec []byte
				var derr error
				if p, hung := withWatchdog(60*time.Second, func() { dec, derr = srv.Decompress(f, enc) }); p != nil || hung {
					res.add(c09Viol{Kind: "decoder_panic_or_hang", Params: map[string]string{"format": f, "input": "valid"}, Text: fmt.Sprintf("panic=%v hung=%v", p, hung), Case: cs})
					continue
				}
				ratio := 0
				if len(enc) > 0 {
					ratio = n / len(enc)
				}
				if derr != nil || !bytes.Equal(dec, x) {
					params := map[string]string{"format": f}
					if f == "lz4" && ratio > 10 {
						params["ratio"] = "over_10"
					}
					res.add(c09Viol{Kind: "valid_stream_not_restored", Params: params, Text: fmt.Sprintf("valid %s stream (%d -> %d bytes, ratio %d) not restored: err=%v", f, n, len(enc), ratio, derr), Case: cs})
					continue
				}
				res.Decoded[f]++
				keep("decode:"+f, dec, x)
				if ratio > res.MaxRatio[f] {
					res.MaxRatio[f] = ratio
				}
				rc := "low"
				if ratio > 10 {
					rc = "over10"
				}
				if ratio > 200 {
					rc = "over200"
				}
				res.Distinct = append(res.Distinct, fmt.Sprintf("dec|%s|%s|%s", f, kind, rc))
			}
		}
	}
	// ---- (2b) every length 0..4200 of very repetitive input for the block formats (decoded-length
	// prefixes take every value, including those that look like the magic bytes of other containers)
	for n := 0; n <= 4200; n++ {
		for _, kind := range []string{"zero", "runs"} {
			x := hx.PRNGBytes(int64(n)*31+7, n, kind)
			for _, f := range []string{"snz", "lz4"} {
				enc, err := hx.Encode(f, x, 1)
				if err != nil {
					continue
				}
				mark()
				var dec []byte
				var derr error
				if p, hung := withWatchdog(30*time.Second, func() { dec, derr = srv.Decompress(f, enc) }); p != nil || hung || derr != nil || !bytes.Equal(dec, x) {
					res.add(c09Viol{Kind: "valid_stream_not_restored", Params: map[string]string{"format": f, "sweep": "every_length"}, Text: fmt.Sprintf("valid %s block of %d %s bytes not restored: err=%v panic=%v hung=%v", f, n, kind, derr, p, hung), Case: map[string]interface{}{"format": f, "len": n, "kind": kind}})
				}
				res.Decoded[f]++
				res.DenseSweep++
			}
		}
	}
	// ---- (3) malformed streams
	var pool [][2]interface{}
	for _, f := range formats {
		for _, n := range []int{0, 1, 20, 300, 5000} {
			x := hx.PRNGBytes(rnd.Int63(), n, "text")
			if enc, err := hx.Encode(f, x, 5); err == nil {
				pool = append(pool, [2]interface{}{f, enc})
			}
		}
	}
	// one known-good stream per format, decoded again after malformed ones
	refValid := map[string][2][]byte{}
	for _, f := range formats {
		x := hx.PRNGBytes(rnd.Int63(), 6600, "text")
		if enc, err := hx.Encode(f, x, 5); err == nil {
			refValid[f] = [2][]byte{x, enc}
		}
	}
	nMal := 6000 * scale
	for i := 0; i < nMal; i++ {
		p := pool[rnd.Intn(len(pool))]
		f := p[0].(string)
		if f == "zst" {
			zstCount++
			if zstCount > 4500 {
				continue
			}
		}
		v := append([]byte{}, p[1].([]byte)...)
		kind := []string{"truncate", "bitflip", "header", "random", "grow"}[rnd.Intn(5)]
		switch kind {
		case "truncate":
			if len(v) > 0 {
				v = v[:rnd.Intn(len(v))]
			}
		case "bitflip":
			for k := 0; k < 1+rnd.Intn(3) && len(v) > 0; k++ {
				v[rnd.Intn(len(v))] ^= 1 << uint(rnd.Intn(8))
			}
		case "header":
			// the first bytes carry magic numbers, flags and declared sizes: random values and extremes
			hl := 4
			if rnd.Intn(2) == 0 {
				hl = 14
			}
			for k := 0; k < hl && k < len(v); k++ {
				switch rnd.Intn(4) {
				case 0:
					v[k] = byte(rnd.Intn(256))
				case 1:
					v[k] = 0xff
				}
			}
			if f == "zst" && len(v) > 13 && rnd.Intn(2) == 0 {
				// frame header descriptor: keep the magic, claim an 8-byte content size and make it huge
				copy(v, []byte{0x28, 0xb5, 0x2f, 0xfd})
				v[4] = 0xc0 | v[4]&0x3f
				for k := 5; k < 13; k++ {
					v[k] = 0xff
				}
				if rnd.Intn(2) == 0 {
					v[12] = byte(rnd.Intn(4)) // 2^56..2^58: too large to allocate, small enough to be tried
				}
			}
		case "random":
			v = make([]byte, rnd.Intn(200))
			rnd.Read(v)
		case "grow":
			v = append(v, v...)
		}
		mark()
		var dec []byte
		var derr error
		pv, hung := withWatchdog(30*time.Second, func() { dec, derr = srv.Decompress(f, v) })
		res.Malformed[f]++
		if pv != nil || hung {
			res.add(c09Viol{Kind: "decoder_panic_or_hang", Params: map[string]string{"format": f, "input": "malformed"}, Text: fmt.Sprintf("%s decoder on a %s-mutated stream: panic=%v hung=%v", f, kind, pv, hung), Input: hexHead(v)})
			continue
		}
		if derr != nil {
			res.MalRejected++
		} else {
			res.MalAccepted++
			_ = dec
		}
		if f != "zst" && i%2 == 0 {
			// a decoder that has just seen a malformed stream still restores the next valid one
			ref := refValid[f]
			var back []byte
			var berr error
			if p2, hung2 := withWatchdog(30*time.Second, func() { back, berr = srv.Decompress(f, ref[1]) }); p2 != nil || hung2 || berr != nil || !bytes.Equal(back, ref[0]) {
				res.add(c09Viol{Kind: "valid_stream_not_restored", Params: map[string]string{"format": f, "after": "malformed_stream"}, Text: fmt.Sprintf("valid %s stream not restored right after the decoder was given a %s-mutated stream: err=%v panic=%v hung=%v got %d bytes want %d", f, kind, berr, p2, hung2, len(back), len(ref[0])), Input: hexHead(v)})
			}
			res.ValidAfterMalformed++
		}
		if i%53 == 0 {
			res.Distinct = append(res.Distinct, fmt.Sprintf("mal|%s|%s|%d", f, kind, len(v)))
		}
	}
	// small streams: truncation at every offset
	for _, p := range pool {
		f, enc := p[0].(string), p[1].([]byte)
		if len(enc) > 400 || f == "zst" && zstCount > 5500 {
			continue
		}
		for cut := 0; cut < len(enc); cut++ {
			if f == "zst" {
				zstCount++
			}
			mark()
			pv, hung := withWatchdog(30*time.Second, func() { srv.Decompress(f, enc[:cut]) })
			res.Malformed[f]++
			if pv != nil || hung {
				res.add(c09Viol{Kind: "decoder_panic_or_hang", Params: map[string]string{"format": f, "input": "malformed"}, Text: fmt.Sprintf("%s decoder on a stream truncated at %d of %d: panic=%v hung=%v", f, cut, len(enc), pv, hung), Input: hexHead(enc[:cut])})
			}
		}
	}
	res.GoroutinesA = runtime.NumGoroutine()
	res.Samples = append(res.Samples, map[string]interface{}{"levels": "-1..12,99,-7", "lengths_head": lengths[:10], "formats": formats})
	buf, _ := json.Marshal(res)
	os.WriteFile(out, buf, 0644)
}

func c12(r *hx.Run) {
	r.Rule = "child process per batch. (1) pike's Gzip/Brotli at levels -1..12, 99 and -7 on lengths {0..64, 2^7..2^20 +-1, random} x {random, text, runs, zeros}: decoded by pike's own and by the standard decoders (plus gzip -dc and python zlib on a sample); (1b) 16 goroutines encoding and decoding at once; (2) valid streams of gzip (incl. multi-member), br, lz4 block, zst (incl. zstd CLI output), snz from self-checked reference encoders, one in four gzip/br/zst streams in a container written with other encoder settings (gzip FNAME/FCOMMENT/FEXTRA/MTIME, brotli windows 2^10..2^24 with flushes, zstd streaming encoder with declared windows 2^10..2^25 and chunked writes) at random levels, up to 1 MiB and ratios > 200: pike's decoder must restore them exactly; (2b) snz and lz4 blocks of every length 0..4200 of zero / run bytes; (3) malformed streams (header edits over the first 14 bytes incl. zstd frames claiming a content size near 2^64, truncation incl. every offset of small streams, bit flips, header edits, random bytes, doubled streams) per decoder under a per-case watchdog: no panic, no hang, and a known-good stream of the format is restored right after every second malformed one. Non-trivial/distinct = (level,length,kind) / (format,kind,ratio class) / mutation class."
	r.Assume = []string{"a malformed stream that decodes to some bytes without error is accepted (the formats carry no mandatory checksum)", "br/lz4/zst/snz reference encoders are the libraries pike links; gzip and zstd additionally use independent tools", "zst cases are capped per child because every ZSTDDecode leaves 16 goroutines behind (information, outside the given properties)"}
	exe, _ := os.Executable()
	batches := r.Pick(1, 12)
	scale := r.Pick(1, 4)
	tot := &c12Result{Encoded: map[string]int64{}, Decoded: map[string]int64{}, MaxRatio: map[string]int{}, Malformed: map[string]int64{}, Variants: map[string]int64{}}
	for b := 0; b < batches && !r.TooMany(); b++ {
		seed := r.Seed*100 + int64(b)
		out := filepath.Join(r.Scratch, fmt.Sprintf("c12-%d.json", b))
		prog := filepath.Join(r.Scratch, fmt.Sprintf("c12-%d.progress", b))
		cmd := exec.Command(exe, "child", "c12", fmt.Sprint(seed), fmt.Sprint(scale), out, prog)
		cmd.Env = append(os.Environ(), "GOMEMLIMIT=8GiB")
		var stderr bytes.Buffer
		cmd.Stderr = &stderr
		timer := time.AfterFunc(20*time.Minute, func() { cmd.Process.Kill() })
		err := cmd.Run()
		timer.Stop()
		buf, rerr := os.ReadFile(out)
		if harnessFailure(err, rerr) {
			// the child could not be started or its result file vanished: not an observation about pike
			r.Inconclusive(fmt.Sprintf("child process could not be run: %v / %v", err, rerr))
			continue
		}
		if err != nil || rerr != nil {
			idx := int64(-1)
			if pb, e := os.ReadFile(prog); e == nil && len(pb) >= 8 {
				idx = int64(binary.BigEndian.Uint64(pb))
			}
			tail := stderr.String()
			if len(tail) > 3000 {
				tail = tail[:3000]
			}
			r.Violate("codec_crashed_process", map[string]string{"batch_seed": fmt.Sprint(seed)}, fmt.Sprintf("child process died (%v) at case #%d of batch seed %d", err, idx, seed), tail, map[string]interface{}{"batch_seed": seed, "case_index": idx})
			continue
		}
		var res c12Result
		json.Unmarshal(buf, &res)
		for k, v := range res.Encoded {
			tot.Encoded[k] += v
		}
		for k, v := range res.Decoded {
			tot.Decoded[k] += v
		}
		for k, v := range res.Malformed {
			tot.Malformed[k] += v
		}
		for k, v := range res.Variants {
			tot.Variants[k] += v
		}
		tot.ValidAfterMalformed += res.ValidAfterMalformed
		tot.DenseSweep += res.DenseSweep
		tot.ConcurrentOps += res.ConcurrentOps
		for k, v := range res.MaxRatio {
			if v > tot.MaxRatio[k] {
				tot.MaxRatio[k] = v
			}
		}
		tot.Independent += res.Independent
		tot.MalAccepted += res.MalAccepted
		tot.MalRejected += res.MalRejected
		tot.GoroutinesA, tot.GoroutinesB = res.GoroutinesA, res.GoroutinesB
		for _, d := range res.Distinct {
			r.Distinct(d)
		}
		for _, s := range res.Samples {
			r.Sample(s)
		}
		for _, v := range res.Viol {
			r.Violate(v.Kind, v.Params, v.Text, v.Input, v.Case)
		}
	}
	var n int64
	for _, v := range tot.Encoded {
		n += v
	}
	for _, v := range tot.Decoded {
		n += v
	}
	for _, v := range tot.Malformed {
		n += v
	}
	r.Eval(n)
	r.Set("encoder_round_trips_by_format_level", tot.Encoded)
	r.Set("reference_streams_decoded_by_format", tot.Decoded)
	r.Set("max_ratio_decoded_by_format", tot.MaxRatio)
	r.Set("valid_stream_container_variants_decoded", tot.Variants)
	r.Add("valid_streams_decoded_right_after_malformed_ones", tot.ValidAfterMalformed)
	r.Add("block_streams_of_every_length_0_to_4200_decoded", tot.DenseSweep)
	r.Add("concurrent_encode_decode_round_trips", tot.ConcurrentOps)
	r.Set("malformed_by_format", tot.Malformed)
	r.Add("malformed_rejected", tot.MalRejected)
	r.Add("malformed_accepted_with_output", tot.MalAccepted)
	r.Add("streams_checked_with_independent_tools", tot.Independent)
	r.Set("goroutines_before_after_last_child(info: zstd decoder leak)", []int{tot.GoroutinesB, tot.GoroutinesA})
}

func init() {
	register("C12", "exploration", c12)
	children["c12"] = c12Child
}
