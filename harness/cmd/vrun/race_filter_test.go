//go:build verif

package main

import (
	"encoding/json"
	"os"
	"strings"
	"testing"
)

func TestRaceContradictsMemoryModel(t *testing.T) {
	sample := "\nWARNING: DATA RACE\nRead at 0x00000256cca0 by goroutine 46:\n  github.com/vicanso/pike/config.Write()\n      /repo/config/config.go:246 +0x44\n  net/http.(*conn).serve()\n      /usr/lib/go-1.23/src/net/http/server.go:2092 +0x12a4\n\nPrevious write at 0x00000256cca0 by main goroutine:\n  github.com/vicanso/pike/app.SetBuildInfo()\n      /repo/app/app.go:85 +0x217\n  main.init.0()\n      /repo/main.go:53 +0x239\n\nGoroutine 46 (running) created at:\n  net/http.(*Server).Serve()\n      /usr/lib/go-1.23/src/net/http/server.go:3360 +0x8ec\n  main.startAdminServer()\n      /repo/main.go:122 +0x176\n  main.runCMD.func2.1()\n      /repo/main.go:152 +0x58\n"
	if !raceContradictsMemoryModel(sample) {
		t.Fatal("the init-time write against a goroutine started from main's code was not recognised")
	}
	// the same write made outside init, a reader started by an init function, two ordinary goroutines: all judged
	for _, s := range []string{
		strings.Replace(sample, "main.init.0()", "main.reload()", 1),
		strings.Replace(sample, "main.runCMD.func2.1()", "main.init.0()", 1),
		strings.Replace(sample, "by main goroutine", "by goroutine 7", 1),
		strings.Replace(sample, "main.runCMD.func2.1()", "github.com/vicanso/pike/cache.init.0.func1()", 1),
	} {
		if raceContradictsMemoryModel(s) {
			t.Fatal("a report that can be a race was set aside:\n" + s)
		}
	}
	if buf, err := os.ReadFile("/verif/replays/C20/1-quick-1.json"); err == nil {
		var d struct {
			Witness string `json:"witness"`
		}
		if json.Unmarshal(buf, &d) == nil && d.Witness != "" && !raceContradictsMemoryModel(d.Witness) {
			t.Fatal("the recorded report is not recognised")
		}
	}
}
