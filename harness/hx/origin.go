package hx

import (
	"bytes"
	"compress/gzip"
	"context"
	"fmt"
	"golang.org/x/net/http2"
	"golang.org/x/net/http2/h2c"
	"io"
	"net"
	"net/http"
	"strconv"
	"strings"
	"sync"
	"sync/atomic"
	"syscall"
	"time"

	"github.com/andybalholm/brotli"
)

// Fetch one upstream contact as seen by an origin
type Fetch struct {
	ID       int64
	Server   int
	Method   string
	Host     string
	URI      string
	Header   http.Header
	Body     []byte
	Proto    string // as the origin saw it: HTTP/1.1 or HTTP/2.0
	Key      string
	Nth      int
	ReqID    string
	StartSeq int64
	EndSeq   int64
	VStart   int64
	VEnd     int64
	Inflight int
	Reply    *Reply
	done     atomic.Bool
}

// Done whether the origin finished answering
func (f *Fetch) Done() bool { return f.done.Load() }

// Reply scripted answer
type Reply struct {
	Status   int
	Header   [][2]string
	Body     []byte // bytes on the wire
	Orig     []byte // identity bytes (nil: same as Body)
	Encoding string // Content-Encoding value ("" = none)
	Gate     <-chan struct{}
	Delay    time.Duration
	Abort    bool // answer with bytes that are not HTTP, then close (a plain close would make Go's transport retry)
	Truncate bool // announce the full Content-Length, send half of the body, close
	Stall    bool // announce the full Content-Length, send half of the body, then nothing more (until StallFor ends)
	StallFor time.Duration
	Drop     bool // read the request, then close the connection without a single byte
	// ServeContent: answer through http.ServeContent with this ETag / modification time
	ServeContent bool
	ETag         string
	ModTime      time.Time
	NoFetchHdr   bool
}

// OrigBody identity body of the reply
func (r *Reply) OrigBody() []byte {
	if r.Orig != nil {
		return r.Orig
	}
	return r.Body
}

// Overlap two upstream contacts of one key in flight at the same time
type Overlap struct {
	Key      string
	FetchA   int64
	FetchB   int64
	Inflight int
	Seq      int64
}

// Farm a set of origins sharing one fetch log
type Farm struct {
	Origins []*Origin
	Clock   func() int64

	nextID atomic.Int64
	mu     sync.Mutex
	log    []*Fetch
	byID   map[int64]*Fetch
	nth    map[string]int
	infl   map[string][]*Fetch
	maxInf map[string]int
	over   []Overlap
	pings  atomic.Int64
	script atomic.Value // func(*Fetch) *Reply
	// PingDelay how long a health-check ping takes to be answered (nanoseconds)
	PingDelay atomic.Int64
}

// Origin one upstream http server
type Origin struct {
	Index int
	Addr  string
	Port  int
	farm  *Farm
	mu    sync.Mutex
	srv   *http.Server
	ln    net.Listener
	// hold: while the origin is down its port stays bound (not listening) by this socket, so that nobody else on
	// the machine - a listener on port 0 or an outgoing connection of any process - is given the port meanwhile
	hold  int
	Reqs  atomic.Int64 // non-ping requests received
	Pings atomic.Int64
	Conns atomic.Int64
	// PingDelay of this origin (nanoseconds); 0 = the farm's
	PingDelay atomic.Int64
	// PingStatus: status answered to health-check pings (0 = 200); the origin keeps listening and serving
	PingStatus atomic.Int64
}

// NewFarm starts n origins
func NewFarm(n int, clock func() int64) *Farm {
	f := &Farm{Clock: clock, byID: map[int64]*Fetch{}, nth: map[string]int{}, infl: map[string][]*Fetch{}, maxInf: map[string]int{}}
	if f.Clock == nil {
		f.Clock = func() int64 { return time.Now().Unix() }
	}
	for i := 0; i < n; i++ {
		o := &Origin{Index: i, farm: f}
		if err := o.Up(); err != nil {
			panic(err)
		}
		f.Origins = append(f.Origins, o)
	}
	return f
}

// SetScript installs the answer script (called once per non-ping request)
func (fm *Farm) SetScript(fn func(f *Fetch) *Reply) { fm.script.Store(fn) }

// Up (re)starts the origin; keeps its port once it has one
func (o *Origin) Up() error {
	o.mu.Lock()
	defer o.mu.Unlock()
	if o.ln != nil {
		return nil
	}
	addr := "127.0.0.1:0"
	if o.Port != 0 {
		addr = "127.0.0.1:" + strconv.Itoa(o.Port)
	}
	if o.hold > 0 {
		syscall.Close(o.hold - 1)
		o.hold = 0
	}
	var ln net.Listener
	var err error
	for i := 0; i < 200; i++ {
		ln, err = net.Listen("tcp", addr)
		if err == nil {
			break
		}
		time.Sleep(5 * time.Millisecond)
	}
	if err != nil {
		return err
	}
	o.ln = ln
	o.Port = ln.Addr().(*net.TCPAddr).Port
	o.Addr = "127.0.0.1:" + strconv.Itoa(o.Port)
	// HTTP/1.1 as before; a client that opens with the HTTP/2 preface (pike's enableH2C upstreams) is served h2c
	o.srv = &http.Server{Handler: h2c.NewHandler(http.HandlerFunc(o.handle), &http2.Server{}), ConnState: func(c net.Conn, st http.ConnState) {
		if st == http.StateNew {
			o.Conns.Add(1)
		}
	}}
	go o.srv.Serve(ln)
	return nil
}

// Down stops listening and drops all connections
func (o *Origin) Down() {
	o.mu.Lock()
	defer o.mu.Unlock()
	if o.ln == nil {
		return
	}
	o.srv.Close()
	o.ln = nil
	o.srv = nil
	if fd, err := ReservePort(o.Port, true); err == nil {
		o.hold = fd + 1
	}
}

// IsUp whether the origin listens
func (o *Origin) IsUp() bool {
	o.mu.Lock()
	defer o.mu.Unlock()
	return o.ln != nil
}

// URL http://addr
func (o *Origin) URL() string { return "http://" + o.Addr }

// Close all origins
func (fm *Farm) Close() {
	for _, o := range fm.Origins {
		o.mu.Lock()
		if o.srv != nil {
			ctx, cancel := context.WithTimeout(context.Background(), 50*time.Millisecond)
			o.srv.Shutdown(ctx)
			cancel()
			o.srv.Close()
			o.srv = nil
			o.ln = nil
		}
		o.mu.Unlock()
	}
}

func (o *Origin) handle(w http.ResponseWriter, r *http.Request) {
	fm := o.farm
	if r.Header.Get("User-Agent") == "upstream/go" {
		o.Pings.Add(1)
		fm.pings.Add(1)
		d := fm.PingDelay.Load()
		if od := o.PingDelay.Load(); od > 0 {
			d = od
		}
		if d > 0 {
			time.Sleep(time.Duration(d))
		}
		if st := o.PingStatus.Load(); st != 0 {
			w.WriteHeader(int(st))
			return
		}
		w.WriteHeader(200)
		return
	}
	o.Reqs.Add(1)
	body, _ := io.ReadAll(r.Body)
	f := &Fetch{
		ID:     fm.nextID.Add(1),
		Server: o.Index,
		Method: r.Method,
		Host:   r.Host,
		URI:    r.RequestURI,
		Header: r.Header.Clone(),
		Body:   body,
		ReqID:  r.Header.Get("X-Req-Id"),
		Proto:  r.Proto,
	}
	f.Key = f.Method + " " + f.Host + " " + f.URI
	fm.mu.Lock()
	fm.nth[f.Key]++
	f.Nth = fm.nth[f.Key]
	cur := fm.infl[f.Key]
	f.StartSeq = Seq()
	f.VStart = fm.Clock()
	for _, other := range cur {
		fm.over = append(fm.over, Overlap{Key: f.Key, FetchA: other.ID, FetchB: f.ID, Inflight: len(cur) + 1, Seq: f.StartSeq})
	}
	fm.infl[f.Key] = append(cur, f)
	f.Inflight = len(cur) + 1
	if f.Inflight > fm.maxInf[f.Key] {
		fm.maxInf[f.Key] = f.Inflight
	}
	fm.log = append(fm.log, f)
	fm.byID[f.ID] = f
	fm.mu.Unlock()

	// the contact stops counting as "in flight" at the moment the origin starts to answer (or to break the
	// connection) - before the peer can observe the outcome. Otherwise a client that has already seen its
	// answer could start the next step while this handler still looks busy (seen on a loaded machine).
	var finishOnce sync.Once
	finish := func() {
		finishOnce.Do(func() {
			fm.mu.Lock()
			list := fm.infl[f.Key]
			for i, x := range list {
				if x == f {
					fm.infl[f.Key] = append(list[:i:i], list[i+1:]...)
					break
				}
			}
			if len(fm.infl[f.Key]) == 0 {
				delete(fm.infl, f.Key)
			}
			f.VEnd = fm.Clock()
			f.EndSeq = Seq()
			fm.mu.Unlock()
			f.done.Store(true)
		})
	}
	defer finish()

	var rep *Reply
	if fn, _ := fm.script.Load().(func(*Fetch) *Reply); fn != nil {
		rep = fn(f)
	}
	if rep == nil {
		rep = &Reply{Status: 200, Body: IdentBody(f, 64, "text")}
	}
	f.Reply = rep
	if rep.Gate != nil {
		select {
		case <-rep.Gate:
		case <-r.Context().Done():
		case <-time.After(60 * time.Second):
		}
	}
	if rep.Delay > 0 {
		select {
		case <-time.After(rep.Delay):
		case <-r.Context().Done():
		}
	}
	finish()
	if rep.Drop {
		if hj, ok := w.(http.Hijacker); ok {
			if conn, _, err := hj.Hijack(); err == nil {
				conn.Close()
				return
			}
		}
		panic(http.ErrAbortHandler)
	}
	if rep.Abort {
		if hj, ok := w.(http.Hijacker); ok {
			conn, _, err := hj.Hijack()
			if err == nil {
				conn.Write([]byte("BROKEN UPSTREAM\r\n\r\n"))
				conn.Close()
				return
			}
		}
		panic(http.ErrAbortHandler)
	}
	if rep.Stall {
		if hj, ok := w.(http.Hijacker); ok {
			conn, bw, err := hj.Hijack()
			if err == nil {
				fmt.Fprintf(bw, "HTTP/1.1 200 OK\r\nContent-Type: text/plain\r\nCache-Control: max-age=60\r\nX-Fetch: %d\r\nContent-Length: %d\r\n\r\n", f.ID, len(rep.Body))
				bw.Write(rep.Body[:len(rep.Body)/2])
				bw.Flush()
				d := rep.StallFor
				if d == 0 {
					d = 30 * time.Second
				}
				// the peer closing the connection (pike giving up) ends the stall early
				conn.SetReadDeadline(time.Now().Add(d))
				var one [1]byte
				conn.Read(one[:])
				conn.Close()
				return
			}
		}
		panic(http.ErrAbortHandler)
	}
	if rep.Truncate {
		if hj, ok := w.(http.Hijacker); ok {
			conn, bw, err := hj.Hijack()
			if err == nil {
				fmt.Fprintf(bw, "HTTP/1.1 200 OK\r\nContent-Type: text/plain\r\nCache-Control: max-age=60\r\nX-Fetch: %d\r\nContent-Length: %d\r\n\r\n", f.ID, len(rep.Body)+100)
				bw.Write(rep.Body)
				bw.Flush()
				conn.Close()
				return
			}
		}
		panic(http.ErrAbortHandler)
	}
	h := w.Header()
	for _, kv := range rep.Header {
		h.Add(kv[0], kv[1])
	}
	if !rep.NoFetchHdr {
		h.Set("X-Fetch", strconv.FormatInt(f.ID, 10))
	}
	if rep.ServeContent {
		if rep.ETag != "" {
			h.Set("ETag", rep.ETag)
		}
		http.ServeContent(w, r, "", rep.ModTime, bytes.NewReader(rep.Body))
		return
	}
	if rep.Encoding != "" {
		h.Set("Content-Encoding", rep.Encoding)
	}
	status := rep.Status
	if status == 0 {
		status = 200
	}
	if status != 304 && status != 204 {
		// also on HEAD: the length the body would have, as real servers announce it
		h.Set("Content-Length", strconv.Itoa(len(rep.Body)))
	}
	w.WriteHeader(status)
	if r.Method != http.MethodHead && status != 304 && status != 204 {
		w.Write(rep.Body)
	}
}

// Log snapshot of all fetches so far
func (fm *Farm) Log() []*Fetch {
	fm.mu.Lock()
	defer fm.mu.Unlock()
	return append([]*Fetch(nil), fm.log...)
}

// LogLen number of fetches so far
func (fm *Farm) LogLen() int {
	fm.mu.Lock()
	defer fm.mu.Unlock()
	return len(fm.log)
}

// LogSince fetches appended at index >= n
func (fm *Farm) LogSince(n int) []*Fetch {
	fm.mu.Lock()
	defer fm.mu.Unlock()
	if n >= len(fm.log) {
		return nil
	}
	return append([]*Fetch(nil), fm.log[n:]...)
}

// ByID fetch by id
func (fm *Farm) ByID(id int64) *Fetch {
	fm.mu.Lock()
	defer fm.mu.Unlock()
	return fm.byID[id]
}

// ByReqID fetches carrying the client's X-Req-Id
func (fm *Farm) ByReqID(reqID string) []*Fetch {
	fm.mu.Lock()
	defer fm.mu.Unlock()
	var out []*Fetch
	for _, f := range fm.log {
		if f.ReqID == reqID {
			out = append(out, f)
		}
	}
	return out
}

// InflightKey current in-flight count of a key
func (fm *Farm) InflightKey(key string) int {
	fm.mu.Lock()
	defer fm.mu.Unlock()
	return len(fm.infl[key])
}

// InflightTotal current in-flight requests over all keys
func (fm *Farm) InflightTotal() int {
	fm.mu.Lock()
	defer fm.mu.Unlock()
	n := 0
	for _, l := range fm.infl {
		n += len(l)
	}
	return n
}

// MaxInflight highest simultaneous in-flight count seen for a key
func (fm *Farm) MaxInflight(key string) int {
	fm.mu.Lock()
	defer fm.mu.Unlock()
	return fm.maxInf[key]
}

// ResetMaxInflight forgets the maxima
func (fm *Farm) ResetMaxInflight() {
	fm.mu.Lock()
	fm.maxInf = map[string]int{}
	fm.mu.Unlock()
}

// Overlaps all overlap events so far
func (fm *Farm) Overlaps() []Overlap {
	fm.mu.Lock()
	defer fm.mu.Unlock()
	return append([]Overlap(nil), fm.over...)
}

// Trim drops the fetch log (keeps counters); for long runs
func (fm *Farm) Trim() {
	fm.mu.Lock()
	fm.log = nil
	fm.byID = map[int64]*Fetch{}
	fm.over = nil
	fm.mu.Unlock()
}

// Pings number of health check requests seen
func (fm *Farm) Pings() int64 { return fm.pings.Load() }

// ---------------------------------------------------------------------------------------
// self-identifying bodies

// IdentLine the identification line of a fetch
func IdentLine(f *Fetch, seed int64, n int, kind string) string {
	return fmt.Sprintf("F=%d M=%s H=%s U=%s K=%s S=%d N=%d\n", f.ID, f.Method, f.Host, f.URI, kind, seed, n)
}

// IdentBody identification line + n reproducible payload bytes
func IdentBody(f *Fetch, n int, kind string) []byte {
	seed := f.ID*7919 + 13
	line := IdentLine(f, seed, n, kind)
	return append([]byte(line), PRNGBytes(seed, n, kind)...)
}

// IdentBodyTotal a self-identifying body of exactly total bytes (total >= 1200), whatever the request looks like
func IdentBodyTotal(f *Fetch, total int, kind string) []byte {
	seed := f.ID*7919 + 13
	n := total - len(IdentLine(f, seed, 1000, kind))
	if n < 1000 || n > 9999 {
		return IdentBody(f, total, kind)
	}
	line := IdentLine(f, seed, n, kind)
	return append([]byte(line), PRNGBytes(seed, n, kind)...)
}

// Ident what a self-identifying body says about itself
type Ident struct {
	FetchID int64
	Method  string
	Host    string
	URI     string
	Kind    string
	Seed    int64
	N       int
	Intact  bool
}

// ParseIdent parses a self-identifying body and checks that the payload is intact
func ParseIdent(body []byte) (Ident, bool) {
	var id Ident
	i := bytes.IndexByte(body, '\n')
	if i < 0 || !bytes.HasPrefix(body, []byte("F=")) {
		return id, false
	}
	fields := strings.Split(string(body[:i]), " ")
	if len(fields) != 7 {
		// the URI could contain spaces only if the client sent them, which it never does
		return id, false
	}
	get := func(s, p string) (string, bool) {
		if !strings.HasPrefix(s, p) {
			return "", false
		}
		return s[len(p):], true
	}
	var ok bool
	var s string
	if s, ok = get(fields[0], "F="); !ok {
		return id, false
	}
	id.FetchID, _ = strconv.ParseInt(s, 10, 64)
	if id.Method, ok = get(fields[1], "M="); !ok {
		return id, false
	}
	if id.Host, ok = get(fields[2], "H="); !ok {
		return id, false
	}
	if id.URI, ok = get(fields[3], "U="); !ok {
		return id, false
	}
	if id.Kind, ok = get(fields[4], "K="); !ok {
		return id, false
	}
	if s, ok = get(fields[5], "S="); !ok {
		return id, false
	}
	id.Seed, _ = strconv.ParseInt(s, 10, 64)
	if s, ok = get(fields[6], "N="); !ok {
		return id, false
	}
	id.N, _ = strconv.Atoi(s)
	payload := body[i+1:]
	id.Intact = len(payload) == id.N && bytes.Equal(payload, PRNGBytes(id.Seed, id.N, id.Kind))
	return id, true
}

// ---------------------------------------------------------------------------------------
// reference codecs (std gzip; brotli = the library pike links, no independent one installed)

// GzipBytes std gzip at level
func GzipBytes(b []byte, level int) []byte {
	var buf bytes.Buffer
	w, err := gzip.NewWriterLevel(&buf, level)
	if err != nil {
		w = gzip.NewWriter(&buf)
	}
	w.Write(b)
	w.Close()
	return buf.Bytes()
}

// GunzipBytes std gunzip
func GunzipBytes(b []byte) ([]byte, error) {
	r, err := gzip.NewReader(bytes.NewReader(b))
	if err != nil {
		return nil, err
	}
	defer r.Close()
	return io.ReadAll(r)
}

// BrotliBytes brotli at level
func BrotliBytes(b []byte, level int) []byte {
	var buf bytes.Buffer
	w := brotli.NewWriterLevel(&buf, level)
	w.Write(b)
	w.Close()
	return buf.Bytes()
}

// UnbrotliBytes brotli decode
func UnbrotliBytes(b []byte) ([]byte, error) {
	return io.ReadAll(brotli.NewReader(bytes.NewReader(b)))
}
