package main

import (
	"fmt"
	"math/rand"
	"strconv"
	"sync"
	"sync/atomic"
	"time"

	"github.com/vicanso/pike/config"
	"verifh/hx"
)

// C04: a stored response is never served past its lifetime; Age is right; hits never extend it.

type c04Step struct {
	Advance int64 `json:"advance"`
	Burst   int   `json:"burst"`
}
type c04Case struct {
	ConstETag bool      `json:"constant_etag_large_body"`
	SMax      bool      `json:"lifetime_from_s_maxage"`
	Head      bool      `json:"head_requests_interleaved"`
	DateSkew  int       `json:"origin_date_skew_seconds"`
	URI       string    `json:"uri"`
	T         int64     `json:"T"`
	Age       string    `json:"origin_age"`
	Steps     []c04Step `json:"steps"`
}

func c04Gen(rnd *rand.Rand, i int) c04Case {
	ts := []int64{1, 2, 3, 5, 10, 60, 3600, 86400, 1<<31 - 1}
	t := ts[rnd.Intn(len(ts))]
	c := c04Case{URI: fmt.Sprintf("/c04/%d", i), T: t}
	switch rnd.Intn(4) {
	case 1:
		c.Age = "0"
	case 2:
		if t > 1 {
			c.Age = "1"
		}
	case 3:
		if t > 1 {
			c.Age = strconv.FormatInt(t-1, 10)
		}
	}
	c.SMax = rnd.Intn(3) == 0
	c.ConstETag = rnd.Intn(3) == 0
	c.Head = rnd.Intn(3) == 0
	c.DateSkew = []int{0, 0, 0, 45, -45, 86400}[rnd.Intn(6)]
	l := ans{Kind: "cacheable", T: t, Age: c.Age}.lifetime()
	n := 6 + rnd.Intn(10)
	for j := 0; j < n; j++ {
		ds := []int64{0, 1, l - 1, l, l + 1, 2*l + 3, l / 2}
		d := ds[rnd.Intn(len(ds))]
		if d < 0 {
			d = 0
		}
		c.Steps = append(c.Steps, c04Step{Advance: d, Burst: 1 + rnd.Intn(8)})
	}
	return c
}

// c04Target where a history runs: plain cache, cache with a store that keeps records past their
// expiry, or a tiny cache with such a store whose entries are evicted between steps
type c04Target struct {
	name  string
	addr  string
	evict bool
}

var c04Reloads atomic.Int64

func c04RunCase(r *hx.Run, w *W, ps *plans, c c04Case, tg c04Target, rnd *rand.Rand) {
	a := ans{Kind: "cacheable", T: c.T, Age: c.Age, SMax: c.SMax, DateSkew: c.DateSkew}
	if c.ConstETag {
		// a weak validator that does not change although the content does, on a compressible body
		a.ETag, a.Size = `W/"same"`, 1800
	}
	ps.set(c.URI, &plan{Seq: []ans{a}})
	defer ps.del(c.URI)
	m := &entryModel{LenientFresh: true, CheckBodyVersion: true}
	// HEAD requests on the same URI have their own key and therefore their own entry with its own lifetime
	mh := &entryModel{LenientFresh: true}
	epochs := 0
	boundaryAt, boundaryAfter := false, false
	var trace []interface{}
	for si, st := range c.Steps {
		now := w.Clock.Advance(st.Advance)
		if si > 0 && rnd.Intn(8) == 0 && c04Reloads.Add(1) <= 300 { // (capped: every reload costs descriptors, see C07)
			// a reload that changes restart-only options of the surviving caches (hit-for-pass period and
			// size): whatever it does with them, the entries keep their lifetimes
			for ci := range w.Cfg.Caches {
				if w.Cfg.Caches[ci].HitForPass == "5m" {
					w.Cfg.Caches[ci].HitForPass = "7m"
					w.Cfg.Caches[ci].Size += 8
				} else {
					w.Cfg.Caches[ci].HitForPass = "5m"
					w.Cfg.Caches[ci].Size -= 8
				}
			}
			w.apply(r)
			r.Add("reloads_changing_cache_options_inside_a_history", 1)
		}
		if tg.evict && rnd.Intn(2) == 0 {
			// push the key out of the tiny LRU: the next lookup reloads the record from the store
			for k := 0; k < 24; k++ {
				w.Cl.Get(tg.addr, "c04.example", fmt.Sprintf("/c04fill/%d", k))
			}
			r.Add("evictions_forced_between_steps", 1)
		}
		before := w.Farm.LogLen()
		wasHit := m.State == stHit
		elapsed := now - m.Created
		res := burst(w, st.Burst, hx.Req{Addr: tg.addr, Host: "c04.example", URI: c.URI})
		var fetches []*hx.Fetch
		for _, f := range w.Farm.LogSince(before) {
			if f.URI == c.URI {
				fetches = append(fetches, f)
			}
		}
		if c.Head {
			beforeH := w.Farm.LogLen()
			resH := burst(w, 1+si%3, hx.Req{Method: "HEAD", Addr: tg.addr, Host: "c04.example", URI: c.URI})
			var fetchesH []*hx.Fetch
			for _, f := range w.Farm.LogSince(beforeH) {
				if f.URI == c.URI {
					fetchesH = append(fetchesH, f)
				}
			}
			r.Add("head_requests", int64(len(resH)))
			if kind, text := mh.burstCheck(now, resH, fetchesH, func(*hx.Fetch) ans { return a }, c.Age == ""); kind != "" {
				r.Violate(kind, map[string]string{"mode": "sequential_head", "target": tg.name}, "HEAD on the same URI: "+text, map[string]interface{}{"trace": trace, "results": briefs(resH)}, map[string]interface{}{"case": c, "target": tg.name})
				return
			}
		}
		if wasHit && elapsed == m.T {
			boundaryAt = true
			r.Add("probes_at_exact_expiry_second", 1)
		}
		if wasHit && elapsed == m.T+1 {
			boundaryAfter = true
			r.Add("probes_one_second_after_expiry", 1)
		}
		kind, text := m.burstCheck(now, res, fetches, func(*hx.Fetch) ans { return a }, c.Age == "")
		if len(fetches) > 0 {
			epochs++
		}
		if len(trace) < 40 {
			trace = append(trace, map[string]interface{}{"step": si, "now": now, "advance": st.Advance, "burst": st.Burst, "labels": labelsOf(res), "contacts": len(fetches), "model_after": m.String()})
		}
		r.Add("requests", int64(len(res)))
		if kind != "" {
			r.Violate(kind, map[string]string{"mode": "sequential", "target": tg.name}, text, map[string]interface{}{"trace": trace, "results": briefs(res)}, map[string]interface{}{"case": c, "target": tg.name})
			return
		}
		for _, x := range res {
			if x.Label == "hit" && c.Age == "" {
				r.Max("max_age_minus_T_seen(<=0)", int64(x.Age)-m.T+1000000)
			}
		}
	}
	r.Add("epochs", int64(epochs))
	r.Add("premature_refetches_(info,_judged_by_C01)", int64(m.PrematureRefetches))
	if epochs >= 2 && (boundaryAt || boundaryAfter) {
		r.Distinct(fmt.Sprintf("%s T=%d age=%s steps=%v", tg.name, c.T, c.Age, c.Steps))
	}
	r.Add("histories_on_"+tg.name, 1)
	r.Sample(map[string]interface{}{"case": c, "target": tg.name, "trace_head": trace[:min(4, len(trace))]})
}

func min(a, b int) int {
	if a < b {
		return a
	}
	return b
}

// c04Directed: a second boundary falls between the lookup and the Age computation
func c04Directed(r *hx.Run, w *W, ps *plans, i int, t int64, refetch bool) {
	uri := fmt.Sprintf("/c04d/%d", i)
	a := ans{Kind: "cacheable", T: t}
	ps.set(uri, &plan{Seq: []ans{a}})
	defer ps.del(uri)
	rq := hx.Req{Addr: w.Addr, Host: "c04.example", URI: uri}
	first := w.Cl.Do(rq)
	t0 := w.Clock.Now()
	if first.Label != "fetching" {
		r.InconclusiveCase("directed: first request not a fetch")
		return
	}
	w.Clock.Advance(t) // elapsed == T: still a legal hit
	h := w.Pts.HoldNext("cache.beforeAge")
	done := make(chan *hx.Result, 1)
	go func() { done <- w.Cl.Do(rq) }()
	if !h.WaitArrived(10 * time.Second) {
		w.Pts.Disarm(h)
		r.InconclusiveCase("directed: request did not reach cache.beforeAge")
		<-done
		return
	}
	w.Clock.Advance(1) // the tick between Get() and Age()
	var second *hx.Result
	if refetch {
		second = w.Cl.Do(rq) // expired by now: refetched and replaced while the hit is still being answered
	}
	h.Release()
	res := <-done
	r.Eval(1)
	r.Add("directed_tick_schedules", 1)
	cs := map[string]interface{}{"uri": uri, "T": t, "schedule": "hit looked up at elapsed=T, clock +1 before Age() is computed", "refetch_in_between": refetch}
	r.Distinct(fmt.Sprintf("directed T=%d refetch=%v", t, refetch))
	if res.Err == nil && res.Label != "hit" {
		// refetching at elapsed == T is premature, not stale: counted, not judged here
		r.Add("directed_premature_refetches_(info)", 1)
		return
	}
	if res.Err != nil || res.FetchID != first.FetchID {
		r.Violate("directed_hit_wrong", nil, "hit at elapsed == T is not the stored version", res.Brief(), cs)
		return
	}
	trueLo, trueHi := res.VCall-t0, res.VRet-t0
	age := int64(res.Age)
	if age < 0 {
		age = 0
	}
	if refetch && second != nil && second.Label != "fetching" {
		r.Violate("directed_refetch_missing", nil, "request after expiry was not refetched", second.Brief(), cs)
	}
	if age > t {
		r.Violate("age_exceeds_T", map[string]string{"mode": "directed_tick", "excess": fmt.Sprint(age - t)},
			fmt.Sprintf("Age=%d on a hit whose lifetime is T=%d (looked up at elapsed=T, Age computed from a second clock read)", age, t), res.Brief(), cs)
	}
	if age < trueLo-1 || age > trueHi+1 {
		r.Violate("age_not_true_age", map[string]string{"mode": "directed_tick", "refetch": fmt.Sprint(refetch)},
			fmt.Sprintf("Age=%d but the response was obtained %d..%d s ago", age, trueLo, trueHi), res.Brief(), cs)
	}
}

// c04Concurrent: a ticker advances the clock while clients run; interval-sound verdicts
func c04Concurrent(r *hx.Run, w *W, ps *plans, rnd *rand.Rand, tickPerRead bool) {
	keys := 6
	ts := []int64{1, 2, 3, 5}
	mode := "concurrent"
	if tickPerRead {
		// hostile clock: every single reading advances the clock, so any two readings inside one
		// operation of pike (store time vs expiry, lookup vs age) disagree
		ts = []int64{8, 15, 30, 60}
		mode = "tick_per_read"
		w.Clock.TickPerRead.Store(true)
		defer w.Clock.TickPerRead.Store(false)
	}
	type keyInfo struct {
		uri string
		t   int64
	}
	var ks []keyInfo
	for i := 0; i < keys; i++ {
		k := keyInfo{fmt.Sprintf("/c04c/%s/%d/%d", mode, r.Seed, i), ts[i%len(ts)]}
		ps.set(k.uri, &plan{Seq: []ans{{Kind: "cacheable", T: k.t}}})
		ks = append(ks, k)
	}
	total := r.Pick(6000, 150000)
	var stop atomic.Bool
	var wgT sync.WaitGroup
	wgT.Add(1)
	go func() {
		defer wgT.Done()
		for !stop.Load() {
			time.Sleep(time.Duration(300+rand.Intn(1200)) * time.Microsecond)
			if !tickPerRead {
				w.Clock.Advance(1)
			}
		}
	}()
	type rec struct {
		res *hx.Result
		t   int64
	}
	var mu sync.Mutex
	var all []rec
	// fetcher results by fetch id: upper bound of createdAt
	var wg sync.WaitGroup
	clients := 16
	per := total / clients
	seeds := make([]int64, clients)
	for i := range seeds {
		seeds[i] = rnd.Int63()
	}
	for c := 0; c < clients; c++ {
		wg.Add(1)
		go func(c int) {
			defer wg.Done()
			lr := rand.New(rand.NewSource(seeds[c]))
			for i := 0; i < per; i++ {
				k := ks[lr.Intn(len(ks))]
				res := w.Cl.Do(hx.Req{Addr: w.Addr, Host: "c04.example", URI: k.uri, Proc: c})
				mu.Lock()
				all = append(all, rec{res, k.t})
				mu.Unlock()
			}
		}(c)
	}
	wg.Wait()
	stop.Store(true)
	wgT.Wait()
	createdHi := map[int64]int64{}
	for _, x := range all {
		if x.res.Label == "fetching" && x.res.Err == nil {
			createdHi[x.res.FetchID] = x.res.VRet
		}
	}
	hits := 0
	for _, x := range all {
		res := x.res
		r.Eval(1)
		if res.Err != nil || res.Status != 200 {
			r.Violate("request_failed", map[string]string{"mode": mode}, "request failed under a ticking clock", res.Brief(), nil)
			continue
		}
		if res.Label != "hit" {
			continue
		}
		hits++
		f := w.Farm.ByID(res.FetchID)
		if f == nil {
			r.Violate("hit_of_unknown_fetch", map[string]string{"mode": mode}, "hit carries no known fetch id", res.Brief(), nil)
			continue
		}
		hi, ok := createdHi[f.ID]
		if !ok {
			// the fetcher's own return was not recorded as 'fetching' (cannot bound createdAt): use the origin's end
			hi = f.VEnd + 1
		}
		cs := map[string]interface{}{"uri": res.Req.URI, "T": x.t, "fetch_vstart": f.VStart, "created_at_most": hi}
		if res.VCall-hi > x.t {
			r.Violate("stale_served", map[string]string{"mode": mode}, fmt.Sprintf("hit at clock >= %d of a version created at clock <= %d with T=%d", res.VCall, hi, x.t), res.Brief(), cs)
		}
		age := int64(res.Age)
		if age < 0 {
			age = 0
		}
		if age < res.VCall-hi || age > res.VRet-f.VStart {
			r.Violate("age_not_true_age", map[string]string{"mode": mode}, fmt.Sprintf("Age=%d outside [%d,%d]", age, res.VCall-hi, res.VRet-f.VStart), res.Brief(), cs)
		}
		if age > x.t {
			r.Violate("age_exceeds_T", map[string]string{"mode": mode + "_tick", "excess": fmt.Sprint(age - x.t)}, fmt.Sprintf("Age=%d > T=%d under a ticking clock", age, x.t), res.Brief(), cs)
		}
	}
	r.Add(mode+"_requests", int64(len(all)))
	r.Add(mode+"_hits_judged", int64(hits))
	r.Add(mode+"_epochs", int64(len(createdHi)))
	if hits > 0 && len(createdHi) > 1 {
		r.Distinct("mode:" + mode)
	}
	for _, k := range ks {
		ps.del(k.uri)
	}
}

func c04(r *hx.Run) {
	r.Rule = "sequential: generated histories (one in three with HEAD requests on the same URI interleaved - their own key, entry and lifetime; one step in eight preceded by a reload that changes the caches' restart-only options; half of them from an origin whose own Date header is 45 s or a day away from the real clock; T from {1,2,3,5,10,60,3600,86400,2^31-1}, origin Age none/0/1/T-1, 6-15 steps of (advance d in {0,1,L-1,L,L+1,2L+3,L/2}, concurrent burst of 1-8) with the clock moved only at quiescence, replayed against the entry model (a hit must be the current version inside its lifetime with the right Age, an expired entry must be refetched exactly once and replaced; a premature refetch is only counted - that is single flight, C01); directed: clock tick between lookup and Age(); concurrent: 16 clients under a ticking virtual clock judged by interval-sound bounds. Non-trivial = history with >=2 epochs that probed the exact expiry second or the one after; distinct = case spec."
	r.Assume = []string{"time is pike's only clock seam cache.nowUnix, replaced by a virtual clock (hook)", "memory-only and store targets: no eviction (cache 100000 >> keys); the tiny-cache target evicts on purpose and relies on its (reliable, TTL-ignoring) in-memory store, so a fresh entry is still a hit after reload"}
	rnd := rand.New(rand.NewSource(r.Seed))
	ports := hx.FreePorts(3)
	w := newWorldCfg(r, 1, true, func(origins []string) *config.PikeConfig {
		hx.NewMemStore("mem://c04/s")
		hx.NewMemStore("mem://c04/t")
		return &config.PikeConfig{
			Caches: []config.CacheConfig{{Name: "c04", Size: 100000, HitForPass: "5m"},
				{Name: "c04s", Size: 100000, HitForPass: "5m", Store: "mem://c04/s"}, {Name: "c04t", Size: 8, HitForPass: "5m", Store: "mem://c04/t"}},
			Upstreams: []config.UpstreamConfig{{Name: "u", Servers: []config.UpstreamServerConfig{{Addr: origins[0]}}}},
			Locations: []config.LocationConfig{{Name: "l", Upstream: "u"}},
			Servers: []config.ServerConfig{{Addr: srvAddr(ports[0]), Locations: []string{"l"}, Cache: "c04"},
				{Addr: srvAddr(ports[1]), Locations: []string{"l"}, Cache: "c04s"}, {Addr: srvAddr(ports[2]), Locations: []string{"l"}, Cache: "c04t"}},
		}
	})
	defer w.Farm.Close()
	w.Pts = hx.InstallPoints(r.Seed)
	ps := &plans{}
	w.Farm.SetScript(ps.script)
	targets := []c04Target{{"memory_only", srvAddr(ports[0]), false}, {"store_keeping_expired_records", srvAddr(ports[1]), false}, {"tiny_cache_with_store_evicting", srvAddr(ports[2]), true}}
	n := r.Pick(400, 20000)
	for i := 0; i < n && !r.TooMany(); i++ {
		c := c04Gen(rnd, i)
		r.Eval(1)
		c04RunCase(r, w, ps, c, targets[i%3], rnd)
		if i%200 == 0 {
			w.Farm.Trim()
		}
	}
	nd := r.Pick(30, 600)
	for i := 0; i < nd && !r.TooMany(); i++ {
		c04Directed(r, w, ps, i, []int64{1, 2, 5, 60}[i%4], i%2 == 1)
	}
	w.Farm.Trim()
	c04Concurrent(r, w, ps, rnd, false)
	w.Farm.Trim()
	c04Concurrent(r, w, ps, rnd, true)
}

func init() { register("C04", "exploration", c04) }
