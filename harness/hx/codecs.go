package hx

import (
	"bytes"
	"compress/gzip"
	"fmt"
	"math/bits"
	"time"

	"github.com/andybalholm/brotli"
	"github.com/golang/snappy"
	"github.com/klauspost/compress/zstd"
	"github.com/pierrec/lz4"
)

// reference encoders/decoders for the formats pike only decodes (same libraries pike links;
// no independent implementation is installed, zstd additionally has the zstd CLI)

// LZ4Block lz4 block encoding; ok=false if the library declares the data incompressible
func LZ4Block(b []byte) ([]byte, bool) {
	dst := make([]byte, lz4.CompressBlockBound(len(b)))
	n, err := lz4.CompressBlock(b, dst, nil)
	if err != nil || n == 0 {
		return nil, false
	}
	return dst[:n], true
}

// UnLZ4Block decode with a buffer of the known original size
func UnLZ4Block(b []byte, origLen int) ([]byte, error) {
	dst := make([]byte, origLen+64)
	n, err := lz4.UncompressBlock(b, dst)
	if err != nil {
		return nil, err
	}
	return dst[:n], nil
}

// ZstdBytes zstd frame at level (1..4 = klauspost speed levels)
func ZstdBytes(b []byte, level int) []byte {
	l := zstd.EncoderLevel(level)
	if l < zstd.SpeedFastest || l > zstd.SpeedBestCompression {
		l = zstd.SpeedDefault
	}
	enc, _ := zstd.NewWriter(nil, zstd.WithEncoderLevel(l), zstd.WithEncoderConcurrency(1))
	defer enc.Close()
	return enc.EncodeAll(b, nil)
}

// UnzstdBytes decode a zstd stream
func UnzstdBytes(b []byte) ([]byte, error) {
	dec, err := zstd.NewReader(nil, zstd.WithDecoderConcurrency(1))
	if err != nil {
		return nil, err
	}
	defer dec.Close()
	return dec.DecodeAll(b, nil)
}

// SnappyBytes snappy block format
func SnappyBytes(b []byte) []byte { return snappy.Encode(nil, b) }

// UnsnappyBytes decode snappy block
func UnsnappyBytes(b []byte) ([]byte, error) { return snappy.Decode(nil, b) }

// Encode body with one of the documented upstream encodings; self-checked (encode -> decode)
func Encode(encoding string, b []byte, level int) ([]byte, error) {
	var out, back []byte
	var err error
	switch encoding {
	case "":
		return b, nil
	case "gzip":
		out = GzipBytes(b, level)
		back, err = GunzipBytes(out)
	case "br":
		out = BrotliBytes(b, level)
		back, err = UnbrotliBytes(out)
	case "lz4":
		var ok bool
		out, ok = LZ4Block(b)
		if !ok {
			return nil, fmt.Errorf("lz4: incompressible or empty")
		}
		back, err = UnLZ4Block(out, len(b))
	case "zst":
		out = ZstdBytes(b, level)
		back, err = UnzstdBytes(out)
	case "snz":
		out = SnappyBytes(b)
		back, err = UnsnappyBytes(out)
	default:
		return nil, fmt.Errorf("unknown encoding %s", encoding)
	}
	if err != nil {
		return nil, fmt.Errorf("reference codec self-check failed: %v", err)
	}
	if !bytes.Equal(back, b) {
		return nil, fmt.Errorf("reference codec self-check: round trip differs")
	}
	return out, nil
}

// EncodeVariant a valid stream of the format produced with encoder settings that change the container
// rather than the data (the decoder must not care): gzip header with optional fields (FNAME, FCOMMENT,
// FEXTRA, MTIME), brotli with a chosen window, zstd written chunk-wise by a streaming encoder with an
// explicit window size (the frame header then declares that window, however small the payload). pick
// selects the variant deterministically. Self-checked like Encode; ok=false when the format has no variants.
func EncodeVariant(encoding string, b []byte, level int, pick int) (out []byte, desc string, ok bool) {
	var back []byte
	var err error
	switch encoding {
	case "gzip":
		var buf bytes.Buffer
		w, _ := gzip.NewWriterLevel(&buf, 1+level%9)
		switch pick % 4 {
		case 0:
			w.Name = "index.html"
			desc = "gzip:fname"
		case 1:
			w.Comment = "written by another tool"
			w.ModTime = time.Unix(1700000000, 0)
			desc = "gzip:fcomment+mtime"
		case 2:
			w.Extra = []byte{'A', 'p', 4, 0, 1, 2, 3, 4}
			desc = "gzip:fextra"
		default:
			w.Name, w.Comment, w.Extra, w.OS = "a.js", "c", []byte{'B', 'C', 2, 0, 9, 9}, 3
			desc = "gzip:fname+fcomment+fextra"
		}
		w.Write(b)
		w.Close()
		out = buf.Bytes()
		back, err = GunzipBytes(out)
	case "br":
		lgwin := []int{10, 16, 22, 24}[pick%4]
		var buf bytes.Buffer
		w := brotli.NewWriterOptions(&buf, brotli.WriterOptions{Quality: level % 12, LGWin: lgwin})
		for i := 0; i < len(b); i += 70000 {
			j := i + 70000
			if j > len(b) {
				j = len(b)
			}
			w.Write(b[i:j])
			if pick%3 == 0 {
				w.Flush()
			}
		}
		w.Close()
		out = buf.Bytes()
		desc = fmt.Sprintf("br:lgwin%d", lgwin)
		back, err = UnbrotliBytes(out)
	case "zst":
		if pick%9 >= 6 {
			// RFC 8878 streams: skippable frames (as pzstd writes them) and several data frames in a row
			skip := func(n int) []byte {
				f := []byte{byte(0x50 + pick%16), 0x2a, 0x4d, 0x18, byte(n), byte(n >> 8), 0, 0}
				return append(f, bytes.Repeat([]byte{0xa5}, n)...)
			}
			half := len(b) / 2
			switch pick % 9 {
			case 6:
				out = append(skip(12), ZstdBytes(b, level)...)
				desc = "zst:skippable_frame_first"
			case 7:
				out = append(append(ZstdBytes(b[:half], level), skip(300)...), ZstdBytes(b[half:], level)...)
				desc = "zst:two_frames_with_a_skippable_frame_between"
			default:
				out = append(ZstdBytes(b, level), skip(0)...)
				desc = "zst:skippable_frame_last"
			}
			back, err = UnzstdBytes(out)
			break
		}
		win := []int{1 << 10, 1 << 16, 1 << 20, 1 << 23, 1 << 24, 1 << 25}[pick%6]
		l := zstd.EncoderLevel(1 + level%4)
		var buf bytes.Buffer
		w, e := zstd.NewWriter(&buf, zstd.WithEncoderLevel(l), zstd.WithEncoderConcurrency(1), zstd.WithWindowSize(win))
		if e != nil {
			return nil, "", false
		}
		chunk := 1 + (pick*7919)%60000
		for i := 0; i < len(b); i += chunk {
			j := i + chunk
			if j > len(b) {
				j = len(b)
			}
			w.Write(b[i:j])
		}
		w.Close()
		out = buf.Bytes()
		desc = fmt.Sprintf("zst:stream_window_2^%d", bits.Len(uint(win))-1)
		back, err = UnzstdBytes(out)
	default:
		return nil, "", false
	}
	if err != nil || !bytes.Equal(back, b) {
		return nil, desc, false
	}
	return out, desc, true
}
